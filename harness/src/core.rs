//! Property-independent machinery: the `Property` trait, per-run statistics, the parallel
//! runner, minimisation, replay files, known findings and evidence.

use serde::de::DeserializeOwned;
use serde::Serialize;
use serde_json::{json, Value};
use std::collections::{BTreeMap, BTreeSet};
use std::sync::atomic::{AtomicU64, Ordering};
use std::sync::Mutex;
use std::time::Instant;

use crate::exec::RunInfo;
use crate::rng::Rng;

pub const HARNESS_VERSION: u32 = 1;

#[derive(Clone, Copy, Debug, PartialEq)]
pub enum Tier {
    Quick,
    Thorough,
}

impl Tier {
    pub fn name(self) -> &'static str {
        match self {
            Tier::Quick => "quick",
            Tier::Thorough => "thorough",
        }
    }
}

/// What one generated case covered; merged over all runs into the evidence file.
#[derive(Clone, Debug, Default)]
pub struct Stats {
    /// injected nondeterminism kinds / fault kinds that actually fired
    pub faults: BTreeMap<String, u64>,
    /// reach probes
    pub probes: BTreeMap<String, u64>,
    pub executions: u64,
    pub operations: u64,
    pub sim_ticks: u64,
    pub sim_clock_micros: u64,
    pub schedule_hashes: BTreeSet<u64>,
    pub split_tree_hashes: BTreeSet<u64>,
    pub nonsequential_executions: u64,
    /// rolling hash of this run's event log: every decision trace, split tree, number of
    /// clock reads and hasher instances, and every observed result digest (in order)
    pub run_hash: u64,
}

impl Stats {
    pub fn fault(&mut self, name: &str, n: u64) {
        if n > 0 {
            *self.faults.entry(name.to_string()).or_insert(0) += n;
        }
    }
    /// Mix an observed result digest into the run's event-log hash.
    pub fn observe(&mut self, digest: u64) {
        self.run_hash = crate::rng::mix64(self.run_hash ^ digest);
    }
    pub fn probe(&mut self, name: &str, hit: bool) {
        let e = self.probes.entry(name.to_string()).or_insert(0);
        if hit {
            *e += 1;
        }
    }
    /// Account for one simulated execution.
    pub fn execution(&mut self, env: &crate::exec::Env, info: &RunInfo) {
        let s = &info.report.stats;
        self.observe(info.report.trace_hash);
        self.observe(info.report.shape_hash);
        self.observe(info.clock_reads);
        self.observe(info.hash_instances);
        self.executions += 1;
        self.sim_ticks += s.ticks;
        self.sim_clock_micros += info.clock_reads * env.clock.1 % 1_000_000_007;
        self.fault("steal_after", s.steal_after);
        self.fault("steal_before", s.steal_before);
        self.fault("helped_own_pending_job_while_waiting", s.helped_local);
        self.fault("helped_stolen_pending_job_while_waiting", s.helped_foreign);
        self.fault("worker_reindex", s.worker_reindex);
        self.fault("injected_top_level", s.injected_top_level);
        self.fault("pool_resize_between_ops", s.width_changes);
        self.fault("scope_spawn_reorder", s.spawn_reorder);
        self.fault("called_from_inside_pool", s.started_inside_pool);
        if env.width == 1 {
            self.fault("pool_width_1", 1);
        }
        if env.width > 16 {
            self.fault("pool_width_gt_cores", 1);
        }
        if env.hash_seed != 0 {
            self.fault("hash_reseed", 1);
        }
        if env.clock.1 == 0 {
            self.fault("clock_frozen", 1);
        } else if env.clock.1 > 500_000 {
            self.fault("clock_backwards", 1);
        }
        if env.clock.0 == 999_999 {
            self.fault("clock_edge", 1);
        }
        if s.steal_after + s.steal_before > 0 {
            self.nonsequential_executions += 1;
        }
        self.schedule_hashes.insert(info.report.trace_hash);
        self.split_tree_hashes.insert(info.report.shape_hash);
        self.probe("split_depth_ge_3", s.max_depth >= 3);
    }
    pub fn merge(&mut self, o: &Stats) {
        for (k, v) in &o.faults {
            *self.faults.entry(k.clone()).or_insert(0) += v;
        }
        for (k, v) in &o.probes {
            *self.probes.entry(k.clone()).or_insert(0) += v;
        }
        self.executions += o.executions;
        self.operations += o.operations;
        self.sim_ticks += o.sim_ticks;
        self.sim_clock_micros += o.sim_clock_micros;
        self.nonsequential_executions += o.nonsequential_executions;
        self.schedule_hashes.extend(o.schedule_hashes.iter());
        self.split_tree_hashes.extend(o.split_tree_hashes.iter());
    }
}

#[derive(Clone, Debug)]
pub struct Violation {
    /// oracle clause that failed (stable across minimisation)
    pub class: String,
    /// human-readable detail (first differing value, ...)
    pub detail: String,
    /// structured signature used to match known findings
    pub signature: Value,
}

#[derive(Clone, Debug)]
pub enum Outcome {
    Pass,
    /// the reference execution itself is outside the property's domain (counted)
    Degenerate(String),
    Violation(Violation),
    /// the harness, not the program, misbehaved (replay divergence, ...)
    HarnessError(String),
}

pub trait Property: Sync {
    type Case: Serialize + DeserializeOwned + Clone + Send + Sync;

    fn id(&self) -> &'static str;
    fn rule(&self) -> &'static str;
    fn assumptions(&self) -> Vec<String>;
    fn runs(&self, tier: Tier) -> u64;
    fn required_probes(&self) -> Vec<&'static str> {
        Vec::new()
    }
    fn generate(&self, rng: &mut Rng, tier: Tier) -> Self::Case;
    /// Deterministic function of the case.
    fn check(&self, case: &Self::Case, stats: &mut Stats) -> Outcome;
    /// Smaller variants of a failing case, most aggressive first.
    fn shrink(&self, case: &Self::Case) -> Vec<Self::Case>;
    /// After a violation: pin every recorded decision into the case so it replays exactly.
    fn pin(&self, case: &Self::Case) -> Self::Case {
        case.clone()
    }
    /// Key identifying a distinct, non-trivial case (None = trivial).
    fn nontrivial_key(&self, case: &Self::Case, stats: &Stats) -> Option<u64>;
    fn sample(&self, case: &Self::Case) -> Value {
        serde_json::to_value(case).unwrap_or(Value::Null)
    }
    /// Which components ran real code and which ran a stub (reported in the evidence).
    fn components(&self) -> Value {
        json!({
            "real": ["/repo/src (all modules, built from the working tree with feature verif)", "rayon 1.10.0 parallel-iterator layer"],
            "stub": ["rayon-core (simulated scheduler, /verif/sim/rayon-core)", "HashMap hasher (seeded)", "SystemTime in Tensor::random (simulated clock)"]
        })
    }
    /// Extra deterministic checks run once per invocation (e.g. fixed regression cases).
    fn fixed_cases(&self) -> Vec<Self::Case> {
        Vec::new()
    }
}

#[allow(dead_code)]
pub struct RunRecord<C> {
    pub index: u64,
    /// kept only for samples (first few runs) and for violating runs
    pub case: Option<C>,
    pub outcome: Outcome,
    pub stats: Stats,
    pub key: Option<u64>,
}

pub fn verif_seed() -> u64 {
    std::env::var("VERIF_SEED").ok().and_then(|s| s.trim().parse::<u64>().ok()).unwrap_or(20261002)
}

pub fn worker_count() -> usize {
    std::env::var("VERIF_WORKERS")
        .ok()
        .and_then(|s| s.parse::<usize>().ok())
        .unwrap_or_else(|| std::thread::available_parallelism().map(|n| n.get()).unwrap_or(4))
        .max(1)
}

/// What the runner keeps of a batch of runs (streamed, so millions of runs fit in memory).
pub struct Batch<C> {
    pub evaluations: u64,
    pub total: Stats,
    pub distinct: BTreeSet<u64>,
    pub degenerate: BTreeMap<String, u64>,
    pub harness_errors: Vec<String>,
    /// violating runs (bounded), sorted by run index
    pub violating: Vec<RunRecord<C>>,
    /// violations that match no known finding
    pub violation_count: u64,
    /// violations matching a known finding, per finding id
    pub known_hits: BTreeMap<String, u64>,
    /// the first few runs, for the evidence samples
    pub samples: Vec<RunRecord<C>>,
    /// order-independent digest of all per-run event-log hashes
    pub event_digest: u64,
    /// (run index, event-log hash) per run, only when VERIF_EVENT_LOG is set
    pub event_log: Vec<(u64, u64)>,
}

impl<C> Batch<C> {
    fn new() -> Batch<C> {
        Batch {
            evaluations: 0,
            total: Stats::default(),
            distinct: BTreeSet::new(),
            degenerate: BTreeMap::new(),
            harness_errors: Vec::new(),
            violating: Vec::new(),
            violation_count: 0,
            known_hits: BTreeMap::new(),
            samples: Vec::new(),
            event_digest: 0,
            event_log: Vec::new(),
        }
    }
    fn absorb(&mut self, mut o: Batch<C>) {
        self.evaluations += o.evaluations;
        self.total.merge(&o.total);
        self.distinct.append(&mut o.distinct);
        for (k, v) in o.degenerate {
            *self.degenerate.entry(k).or_insert(0) += v;
        }
        self.harness_errors.append(&mut o.harness_errors);
        self.violating.append(&mut o.violating);
        self.violation_count += o.violation_count;
        for (k, v) in o.known_hits {
            *self.known_hits.entry(k).or_insert(0) += v;
        }
        self.samples.append(&mut o.samples);
        self.event_digest = self.event_digest.wrapping_add(o.event_digest);
        self.event_log.append(&mut o.event_log);
    }
}

const MAX_KEPT_VIOLATIONS: usize = 256;

/// Degenerate reasons are grouped in the evidence: the operands of the library's shape
/// assertions are dropped (there would be one entry per shape pair otherwise).
fn normalise_reason(why: &str) -> String {
    match why.find("(left:") {
        Some(i) => format!("{}(shape assertion)", &why[..i]),
        None => why.to_string(),
    }
}

/// Run `count` generated cases over all cores. Deterministic in (seed, property, count):
/// everything aggregated is order-independent (sums, sets) or sorted by run index.
pub fn run_cases<P: Property>(p: &P, seed: u64, tier: Tier, count: u64, known: &[KnownFinding]) -> Batch<P::Case> {
    let next = AtomicU64::new(0);
    let out: Mutex<Batch<P::Case>> = Mutex::new(Batch::new());
    let fixed = p.fixed_cases();
    let nfixed = fixed.len() as u64;
    let total = count + nfixed;
    let log_events = std::env::var("VERIF_EVENT_LOG").is_ok();
    std::thread::scope(|scope| {
        for _ in 0..worker_count() {
            // simulated executions are recursive (nested joins, nested helping): give the
            // workers a deep stack (address space only; touched pages are what counts)
            let _ = std::thread::Builder::new().stack_size(1 << 28).spawn_scoped(scope, || {
                let mut local: Batch<P::Case> = Batch::new();
                loop {
                    // blocks of indices keep contention on the counter negligible
                    let base = next.fetch_add(16, Ordering::Relaxed);
                    if base >= total {
                        break;
                    }
                    for i in base..(base + 16).min(total) {
                        let case = if i < nfixed {
                            fixed[i as usize].clone()
                        } else {
                            let mut rng = Rng::for_run(seed, p.id(), i - nfixed);
                            p.generate(&mut rng, tier)
                        };
                        let mut stats = Stats::default();
                        // diagnostics only (stderr, never part of the outcome): VERIF_SLOW=<seconds>
                        let started = std::env::var("VERIF_SLOW").ok().and_then(|s| s.parse::<f64>().ok()).map(|limit| (std::time::Instant::now(), limit));
                        let outcome = p.check(&case, &mut stats);
                        if let Some((t0, limit)) = started {
                            let dt = t0.elapsed().as_secs_f64();
                            if dt > limit {
                                eprintln!("SLOW case {} took {:.1}s: {}", i, dt, serde_json::to_string(&case).map(|s| s.chars().take(600).collect::<String>()).unwrap_or_default());
                            }
                        }
                        let key = p.nontrivial_key(&case, &stats);
                        local.evaluations += 1;
                        local.total.merge(&stats);
                        let mut is_known = false;
                        let outcome_hash = match &outcome {
                            Outcome::Pass => 1,
                            Outcome::Degenerate(w) => crate::rng::hash_str(w),
                            Outcome::Violation(v) => crate::rng::hash_str(&format!("{}|{}", v.class, v.detail)),
                            Outcome::HarnessError(e) => crate::rng::hash_str(e),
                        };
                        let run_hash = crate::rng::mix64(stats.run_hash ^ crate::rng::mix64(outcome_hash) ^ key.unwrap_or(0));
                        local.event_digest = local.event_digest.wrapping_add(crate::rng::mix64(run_hash ^ crate::rng::mix64(i)));
                        if log_events {
                            local.event_log.push((i, run_hash));
                        }
                        match &outcome {
                            Outcome::Pass => {
                                if let Some(k) = key {
                                    local.distinct.insert(k);
                                }
                            }
                            Outcome::Degenerate(why) => {
                                if std::env::var("VERIF_DEBUG_DEGENERATE").map(|f| why.contains(&f)).unwrap_or(false) {
                                    eprintln!("DEGENERATE run {}: {}\n{}", i, why, serde_json::to_string(&p.sample(&case)).unwrap());
                                }
                                *local.degenerate.entry(normalise_reason(why)).or_insert(0) += 1;
                            }
                            Outcome::Violation(v) => {
                                if let Some(k) = key {
                                    local.distinct.insert(k);
                                }
                                match known.iter().find(|k| matches_known(k, p.id(), v)) {
                                    Some(k) => {
                                        *local.known_hits.entry(k.id.clone()).or_insert(0) += 1;
                                        is_known = true;
                                    }
                                    None => local.violation_count += 1,
                                }
                            }
                            Outcome::HarnessError(e) => {
                                if local.harness_errors.len() < 20 {
                                    local.harness_errors.push(format!("run {}: {}", i, e));
                                }
                            }
                        }
                        let is_violation = matches!(outcome, Outcome::Violation(_)) && !is_known;
                        if is_violation && local.violating.len() < MAX_KEPT_VIOLATIONS {
                            local.violating.push(RunRecord { index: i, case: Some(case), outcome, stats, key });
                        } else if i < nfixed + 3 {
                            local.samples.push(RunRecord { index: i, case: Some(case), outcome, stats, key });
                        }
                    }
                }
                out.lock().unwrap().absorb(local);
            });
        }
    });
    let mut b = out.into_inner().unwrap();
    b.violating.sort_by_key(|r| r.index);
    b.violating.truncate(MAX_KEPT_VIOLATIONS);
    b.samples.sort_by_key(|r| r.index);
    b.harness_errors.sort();
    b.event_log.sort();
    if let Ok(path) = std::env::var("VERIF_EVENT_LOG") {
        let mut text = String::new();
        for (i, h) in &b.event_log {
            text.push_str(&format!("{} {:016x}\n", i, h));
        }
        let _ = std::fs::write(path, text);
    }
    b
}

/// Greedy deterministic minimisation: keep any shrink candidate that still violates the
/// same oracle clause; at most `budget` re-executions.
pub fn minimise<P: Property>(p: &P, case: &P::Case, class: &str, budget: usize) -> (P::Case, Violation, usize) {
    let mut best = case.clone();
    let mut best_v = match p.check(&best, &mut Stats::default()) {
        Outcome::Violation(v) => v,
        _ => Violation { class: class.to_string(), detail: "not reproducible while minimising".into(), signature: Value::Null },
    };
    let mut used = 1;
    let mut progress = true;
    while progress && used < budget {
        progress = false;
        for cand in p.shrink(&best) {
            if used >= budget {
                break;
            }
            used += 1;
            if let Outcome::Violation(v) = p.check(&cand, &mut Stats::default()) {
                if v.class == class {
                    best = p.pin(&cand);
                    best_v = v;
                    progress = true;
                    break;
                }
            }
        }
    }
    (best, best_v, used)
}

// ------------------------------------------------------------------------------------
// known findings
// ------------------------------------------------------------------------------------

#[derive(Clone, Debug)]
pub struct KnownFinding {
    pub property: String,
    pub id: String,
    pub what: String,
    pub matcher: Value,
}

pub fn load_known_findings(path: &str) -> Vec<KnownFinding> {
    let text = match std::fs::read_to_string(path) {
        Ok(t) => t,
        Err(_) => return Vec::new(),
    };
    let v: Value = serde_json::from_str(&text).unwrap_or_else(|e| {
        eprintln!("harness error: {} is not valid JSON: {}", path, e);
        std::process::exit(2);
    });
    let mut out = Vec::new();
    if let Some(list) = v.get("findings").and_then(|x| x.as_array()) {
        for f in list {
            out.push(KnownFinding {
                property: f["property"].as_str().unwrap_or("").to_string(),
                id: f["id"].as_str().unwrap_or("").to_string(),
                what: f["what"].as_str().unwrap_or("").to_string(),
                matcher: f["match"].clone(),
            });
        }
    }
    out
}

/// A known finding matches iff every key of its `match` object is present in the
/// violation signature with an equal value (class included). Never matches on the
/// property id alone.
pub fn matches_known(k: &KnownFinding, property: &str, v: &Violation) -> bool {
    if k.property != property {
        return false;
    }
    let m = match k.matcher.as_object() {
        Some(m) if !m.is_empty() => m,
        _ => return false,
    };
    let mut sig = v.signature.as_object().cloned().unwrap_or_default();
    sig.insert("class".into(), Value::String(v.class.clone()));
    m.iter().all(|(key, want)| sig.get(key) == Some(want))
}

// ------------------------------------------------------------------------------------
// driver
// ------------------------------------------------------------------------------------

pub struct Paths {
    pub root: String,
}

impl Paths {
    pub fn new() -> Paths {
        Paths { root: std::env::var("VERIF_ROOT").unwrap_or_else(|_| "/verif".to_string()) }
    }
    pub fn evidence(&self, id: &str) -> String {
        format!("{}/evidence/{}.json", self.root, id)
    }
    pub fn replay_dir(&self) -> String {
        format!("{}/replays", self.root)
    }
    pub fn known(&self) -> String {
        format!("{}/known_findings.json", self.root)
    }
}

fn digest(v: &Violation) -> String {
    format!("{:016x}", crate::rng::hash_str(&format!("{}|{}", v.class, v.signature)))
}

pub fn replay_value<P: Property>(p: &P, case: &P::Case, v: &Violation, seed: u64, index: u64, original: Option<&P::Case>, minimise_runs: usize) -> Value {
    json!({
        "property": p.id(),
        "harness_version": HARNESS_VERSION,
        "verif_seed": seed,
        "run_index": index,
        "violation": { "class": v.class, "detail": v.detail, "signature": v.signature, "digest": digest(v) },
        "minimisation_reexecutions": minimise_runs,
        "replay_cmd": format!("./check replay <this file>"),
        "case": serde_json::to_value(case).unwrap(),
        "original_case": original.map(|c| serde_json::to_value(c).unwrap()),
    })
}

/// Run a property check end to end. Returns the process exit code.
pub fn drive<P: Property>(p: &P, tier: Tier, out: &mut dyn std::io::Write) -> i32 {
    let t0 = Instant::now();
    let seed = verif_seed();
    let paths = Paths::new();
    let count = std::env::var("VERIF_RUNS").ok().and_then(|s| s.parse().ok()).unwrap_or_else(|| p.runs(tier));
    let known = load_known_findings(&paths.known());
    let batch = run_cases(p, seed, tier, count, &known);
    let total = &batch.total;
    let distinct = &batch.distinct;
    let degenerate = &batch.degenerate;
    let mut harness_errors: Vec<String> = batch.harness_errors.clone();
    let violating: Vec<&RunRecord<P::Case>> = batch.violating.iter().collect();

    // Minimise and report: one replay file per distinct (class, known-finding) pair, at
    // most 4 minimisations per invocation.
    let mut new_violations = batch.violation_count.saturating_sub(violating.len() as u64);
    let mut known_hits: BTreeMap<String, u64> = batch.known_hits.clone();
    let mut reported: BTreeSet<String> = BTreeSet::new();
    let mut violation_lines: Vec<String> = Vec::new();
    let mut minimised = 0;
    let _ = std::fs::create_dir_all(paths.replay_dir());
    for r in &violating {
        let v = match &r.outcome {
            Outcome::Violation(v) => v,
            _ => unreachable!(),
        };
        if let Some(k) = known.iter().find(|k| matches_known(k, p.id(), v)) {
            *known_hits.entry(k.id.clone()).or_insert(0) += 1;
            continue;
        }
        new_violations += 1;
        let class_key = format!("{}|{}", v.class, v.signature);
        if reported.contains(&class_key) || minimised >= 4 {
            continue;
        }
        reported.insert(class_key);
        minimised += 1;
        let pinned = p.pin(r.case.as_ref().unwrap());
        let (small, small_v, used) = minimise(p, &pinned, &v.class, 400);
        // a minimised case that turns out to be a known finding is reported as such
        if let Some(k) = known.iter().find(|k| matches_known(k, p.id(), &small_v)) {
            *known_hits.entry(k.id.clone()).or_insert(0) += 1;
            new_violations -= 1;
            continue;
        }
        let path = format!("{}/{}-{}-{}.json", paths.replay_dir(), p.id(), seed, r.index);
        let value = replay_value(p, &small, &small_v, seed, r.index, Some(&pinned), used);
        if let Err(e) = std::fs::write(&path, serde_json::to_string_pretty(&value).unwrap()) {
            harness_errors.push(format!("cannot write replay file {}: {}", path, e));
        }
        violation_lines.push(format!(
            "VIOLATION property={} replay={} class={} digest={} detail={}",
            p.id(),
            path,
            small_v.class,
            digest(&small_v),
            small_v.detail.replace('\n', " ")
        ));
    }

    // required probes (thorough only): a probe stuck at zero means the workload mix is
    // wrong, which is a harness problem, never a violation.
    let mut probe_failures = Vec::new();
    if tier == Tier::Thorough && count >= p.runs(Tier::Quick) {
        for name in p.required_probes() {
            if total.probes.get(name).copied().unwrap_or(0) == 0 {
                probe_failures.push(name.to_string());
            }
        }
    }

    let wall = t0.elapsed().as_secs_f64();
    let samples: Vec<Value> = batch
        .samples
        .iter()
        .chain(batch.violating.iter())
        .filter(|r| r.case.is_some())
        .take(3)
        .map(|r| json!({ "run_index": r.index, "case": p.sample(r.case.as_ref().unwrap()) }))
        .collect();
    let evaluations = batch.evaluations;
    let evidence = json!({
        "property_id": p.id(),
        "tier": tier.name(),
        "seed": seed,
        "level": "exploration",
        "coverage": {
            "evaluations": evaluations,
            "distinct_nontrivial": distinct.len(),
            "rule": p.rule(),
            "samples": samples,
            "simulated_executions": total.executions,
            "nonsequential_executions": total.nonsequential_executions,
            "api_operations": total.operations,
            "runs_per_hour": if wall > 0.0 { (evaluations as f64 / wall * 3600.0) as u64 } else { 0 },
            "executions_per_hour": if wall > 0.0 { (total.executions as f64 / wall * 3600.0) as u64 } else { 0 },
            "simulated_time": { "scheduler_ticks": total.sim_ticks, "sim_clock_micros_advanced": total.sim_clock_micros },
            "fault_counts": total.faults,
            "fault_kinds_not_applicable": [
                "message loss/duplication/reordering", "partition/heal", "crash/restart", "disk error/torn write/full disk",
                "allocation failure", "timer/deadline skew"
            ],
            "fault_kinds_not_applicable_reason": "the library has no network, storage, timers or retry paths; allocation failure aborts",
            "probes": total.probes,
            "distinct_schedules": total.schedule_hashes.len(),
            "distinct_split_trees": total.split_tree_hashes.len(),
            "degenerate": degenerate,
            "known_findings_hit": known_hits,
            "required_probes_at_zero": probe_failures,
            "components": p.components(),
            "engine": "E1 poolsim (recursive single-thread simulation of rayon-core; switches only at join boundaries)",
            "workers": worker_count(),
            "event_log_digest": format!("{:016x}", batch.event_digest),
        },
        "assumptions": p.assumptions(),
        "wall_s": wall,
        "violations": new_violations,
    });
    let _ = std::fs::create_dir_all(format!("{}/evidence", paths.root));
    if let Err(e) = std::fs::write(paths.evidence(p.id()), serde_json::to_string_pretty(&evidence).unwrap()) {
        harness_errors.push(format!("cannot write evidence: {}", e));
    }

    for (id, n) in &known_hits {
        let k = known.iter().find(|k| &k.id == id).unwrap();
        let _ = writeln!(out, "KNOWN-FINDING: property={} {} [{}; hit by {} run(s)]", p.id(), k.what, k.id, n);
    }
    for l in &violation_lines {
        let _ = writeln!(out, "{}", l);
    }
    let _ = writeln!(
        out,
        "{} {}: runs={} executions={} distinct_nontrivial={} degenerate={} violations={} known={} wall={:.1}s",
        p.id(),
        tier.name(),
        evaluations,
        total.executions,
        distinct.len(),
        degenerate.values().sum::<u64>(),
        new_violations,
        known_hits.values().sum::<u64>(),
        wall
    );
    if !harness_errors.is_empty() {
        for e in harness_errors.iter().take(10) {
            let _ = writeln!(out, "HARNESS-ERROR {}", e);
        }
        return 2;
    }
    if new_violations > 0 {
        return 1;
    }
    if !probe_failures.is_empty() {
        let _ = writeln!(out, "HARNESS-ERROR required probes at zero: {:?}", probe_failures);
        return 2;
    }
    if distinct.len() < 2 {
        let _ = writeln!(out, "HARNESS-ERROR fewer than 2 distinct non-trivial cases explored");
        return 2;
    }
    0
}

/// Re-execute a replay file in this (fresh) process.
pub fn replay<P: Property>(p: &P, file: &Value, out: &mut dyn std::io::Write) -> i32 {
    let case: P::Case = match serde_json::from_value(file["case"].clone()) {
        Ok(c) => c,
        Err(e) => {
            let _ = writeln!(out, "HARNESS-ERROR cannot parse case: {}", e);
            return 2;
        }
    };
    let mut stats = Stats::default();
    match p.check(&case, &mut stats) {
        Outcome::Violation(v) => {
            let expected = file["violation"]["digest"].as_str().unwrap_or("");
            let _ = writeln!(
                out,
                "VIOLATION property={} replay=<replayed> class={} digest={} expected_digest={} same={} detail={}",
                p.id(),
                v.class,
                digest(&v),
                expected,
                digest(&v) == expected,
                v.detail.replace('\n', " ")
            );
            1
        }
        Outcome::Pass => {
            let _ = writeln!(out, "replay: property {} holds on this case (no violation reproduced)", p.id());
            0
        }
        Outcome::Degenerate(why) => {
            let _ = writeln!(out, "replay: case is degenerate on this tree: {}", why);
            0
        }
        Outcome::HarnessError(e) => {
            let _ = writeln!(out, "HARNESS-ERROR {}", e);
            2
        }
    }
}
