//! Fully expanded, serialisable configurations (what a replay file stores) and the code
//! that turns them into `neurons` objects through the library's public API.

use neurons::{activation, feedback, network, objective, optimizer, tensor};
use serde::{Deserialize, Serialize};
use std::sync::Arc;

#[derive(Serialize, Deserialize, Clone, Copy, Debug, PartialEq)]
pub enum Act {
    ReLU,
    LeakyReLU,
    Sigmoid,
    Tanh,
    Linear,
    Softmax,
}

impl Act {
    pub fn to_lib(self) -> activation::Activation {
        match self {
            Act::ReLU => activation::Activation::ReLU,
            Act::LeakyReLU => activation::Activation::LeakyReLU,
            Act::Sigmoid => activation::Activation::Sigmoid,
            Act::Tanh => activation::Activation::Tanh,
            Act::Linear => activation::Activation::Linear,
            Act::Softmax => activation::Activation::Softmax,
        }
    }
}

#[derive(Serialize, Deserialize, Clone, Copy, Debug, PartialEq)]
pub enum Acc {
    Add,
    Subtract,
    Multiply,
    Overwrite,
    Mean,
}

impl Acc {
    pub fn to_lib(self) -> feedback::Accumulation {
        match self {
            Acc::Add => feedback::Accumulation::Add,
            Acc::Subtract => feedback::Accumulation::Subtract,
            Acc::Multiply => feedback::Accumulation::Multiply,
            Acc::Overwrite => feedback::Accumulation::Overwrite,
            Acc::Mean => feedback::Accumulation::Mean,
        }
    }
}

#[derive(Serialize, Deserialize, Clone, Copy, Debug, PartialEq)]
pub enum ShapeCfg {
    Flat(usize),
    Image(usize, usize, usize),
}

impl ShapeCfg {
    pub fn to_lib(self) -> tensor::Shape {
        match self {
            ShapeCfg::Flat(n) => tensor::Shape::Single(n),
            ShapeCfg::Image(c, h, w) => tensor::Shape::Triple(c, h, w),
        }
    }
    pub fn count(self) -> usize {
        match self {
            ShapeCfg::Flat(n) => n,
            ShapeCfg::Image(c, h, w) => c * h * w,
        }
    }
}

#[derive(Serialize, Deserialize, Clone, Debug, PartialEq)]
pub enum LayerCfg {
    Dense { out: usize, act: Act, bias: bool, dropout: Option<f32> },
    Conv {
        filters: usize,
        kernel: (usize, usize),
        stride: (usize, usize),
        padding: (usize, usize),
        dilation: (usize, usize),
        act: Act,
        dropout: Option<f32>,
    },
    Deconv {
        filters: usize,
        kernel: (usize, usize),
        stride: (usize, usize),
        padding: (usize, usize),
        act: Act,
        dropout: Option<f32>,
    },
    Maxpool { kernel: (usize, usize), stride: (usize, usize) },
    Feedback { layers: Vec<LayerCfg>, loops: usize, inskips: bool, outskips: bool, acc: Acc },
}

impl LayerCfg {
    pub fn dropout(&self) -> Option<f32> {
        match self {
            LayerCfg::Dense { dropout, .. } => *dropout,
            LayerCfg::Conv { dropout, .. } => *dropout,
            LayerCfg::Deconv { dropout, .. } => *dropout,
            LayerCfg::Maxpool { .. } => None,
            LayerCfg::Feedback { layers, .. } => layers.iter().find_map(|l| l.dropout()),
        }
    }

    pub fn without_dropout(&self) -> LayerCfg {
        let mut l = self.clone();
        match &mut l {
            LayerCfg::Dense { dropout, .. } => *dropout = None,
            LayerCfg::Conv { dropout, .. } => *dropout = None,
            LayerCfg::Deconv { dropout, .. } => *dropout = None,
            LayerCfg::Maxpool { .. } => {}
            LayerCfg::Feedback { layers, .. } => {
                for x in layers.iter_mut() {
                    *x = x.without_dropout();
                }
            }
        }
        l
    }

    /// Output shape for a given input shape, `None` if the layer does not fit.
    pub fn output(&self, input: ShapeCfg) -> Option<ShapeCfg> {
        fn as_image(s: ShapeCfg) -> Option<(usize, usize, usize)> {
            match s {
                ShapeCfg::Image(c, h, w) => Some((c, h, w)),
                ShapeCfg::Flat(n) => {
                    let r = (n as f32).sqrt() as usize;
                    if r >= 1 && r * r == n {
                        Some((1, r, r))
                    } else {
                        None
                    }
                }
            }
        }
        match self {
            LayerCfg::Dense { out, .. } => Some(ShapeCfg::Flat(*out)),
            LayerCfg::Conv { filters, kernel, stride, padding, dilation, .. } => {
                let (_, h, w) = as_image(input)?;
                let eh = dilation.0 * (kernel.0 - 1) + 1;
                let ew = dilation.1 * (kernel.1 - 1) + 1;
                if h + 2 * padding.0 < eh || w + 2 * padding.1 < ew {
                    return None;
                }
                Some(ShapeCfg::Image(
                    *filters,
                    (h + 2 * padding.0 - eh) / stride.0 + 1,
                    (w + 2 * padding.1 - ew) / stride.1 + 1,
                ))
            }
            LayerCfg::Deconv { filters, kernel, stride, padding, .. } => {
                let (_, h, w) = as_image(input)?;
                let oh = (h - 1) * stride.0 + kernel.0;
                let ow = (w - 1) * stride.1 + kernel.1;
                // the library evaluates (h-1)*s - 2p + k left to right in unsigned
                // arithmetic: configurations where (h-1)*s < 2p trip its overflow check
                // even though the result is positive; they are not generated
                if oh <= 2 * padding.0 || ow <= 2 * padding.1 || (h - 1) * stride.0 < 2 * padding.0 || (w - 1) * stride.1 < 2 * padding.1 {
                    return None;
                }
                Some(ShapeCfg::Image(*filters, oh - 2 * padding.0, ow - 2 * padding.1))
            }
            LayerCfg::Maxpool { kernel, stride } => {
                let (c, h, w) = as_image(input)?;
                if h < kernel.0 || w < kernel.1 {
                    return None;
                }
                Some(ShapeCfg::Image(c, (h - kernel.0) / stride.0 + 1, (w - kernel.1) / stride.1 + 1))
            }
            LayerCfg::Feedback { layers, .. } => {
                let mut s = input;
                for l in layers {
                    s = l.output(s)?;
                }
                if s == input {
                    Some(s)
                } else {
                    None
                }
            }
        }
    }

    fn to_feedback_layer(&self) -> feedback::Layer {
        match self {
            LayerCfg::Dense { out, act, bias, dropout } => {
                feedback::Layer::Dense(*out, act.to_lib(), *bias, *dropout)
            }
            LayerCfg::Conv { filters, kernel, stride, padding, dilation, act, dropout } => {
                feedback::Layer::Convolution(
                    *filters,
                    act.to_lib(),
                    *kernel,
                    *stride,
                    *padding,
                    *dilation,
                    *dropout,
                )
            }
            LayerCfg::Deconv { filters, kernel, stride, padding, act, dropout } => {
                feedback::Layer::Deconvolution(
                    *filters,
                    act.to_lib(),
                    *kernel,
                    *stride,
                    *padding,
                    *dropout,
                )
            }
            LayerCfg::Maxpool { kernel, stride } => feedback::Layer::Maxpool(*kernel, *stride),
            LayerCfg::Feedback { .. } => panic!("harness: nested feedback block in configuration"),
        }
    }
}

#[derive(Serialize, Deserialize, Clone, Debug, PartialEq)]
pub enum OptCfg {
    SGD { lr: f32, decay: Option<f32> },
    SGDM { lr: f32, momentum: f32, dampening: f32, decay: Option<f32> },
    Adam { lr: f32, beta1: f32, beta2: f32, epsilon: f32, decay: Option<f32> },
    AdamW { lr: f32, beta1: f32, beta2: f32, epsilon: f32, decay: f32 },
    RMSprop {
        lr: f32,
        alpha: f32,
        epsilon: f32,
        decay: Option<f32>,
        momentum: Option<f32>,
        centered: bool,
    },
}

impl OptCfg {
    pub fn lr_mut(&mut self) -> &mut f32 {
        match self {
            OptCfg::SGD { lr, .. } | OptCfg::SGDM { lr, .. } | OptCfg::Adam { lr, .. } | OptCfg::AdamW { lr, .. } | OptCfg::RMSprop { lr, .. } => lr,
        }
    }

    pub fn to_lib(&self) -> optimizer::Optimizer {
        match self {
            OptCfg::SGD { lr, decay } => optimizer::SGD::create(*lr, *decay),
            OptCfg::SGDM { lr, momentum, dampening, decay } => {
                optimizer::SGDM::create(*lr, *momentum, *dampening, *decay)
            }
            OptCfg::Adam { lr, beta1, beta2, epsilon, decay } => {
                optimizer::Adam::create(*lr, *beta1, *beta2, *epsilon, *decay)
            }
            OptCfg::AdamW { lr, beta1, beta2, epsilon, decay } => {
                optimizer::AdamW::create(*lr, *beta1, *beta2, *epsilon, *decay)
            }
            OptCfg::RMSprop { lr, alpha, epsilon, decay, momentum, centered } => {
                optimizer::RMSprop::create(*lr, *alpha, *epsilon, *decay, *momentum, *centered)
            }
        }
    }
    pub fn kind(&self) -> &'static str {
        match self {
            OptCfg::SGD { .. } => "SGD",
            OptCfg::SGDM { .. } => "SGDM",
            OptCfg::Adam { .. } => "Adam",
            OptCfg::AdamW { .. } => "AdamW",
            OptCfg::RMSprop { .. } => "RMSprop",
        }
    }
}

#[derive(Serialize, Deserialize, Clone, Copy, Debug, PartialEq)]
pub enum Obj {
    AE,
    MAE,
    MSE,
    RMSE,
    CrossEntropy,
    BinaryCrossEntropy,
    KLDivergence,
}

impl Obj {
    pub fn to_lib(self) -> objective::Objective {
        match self {
            Obj::AE => objective::Objective::AE,
            Obj::MAE => objective::Objective::MAE,
            Obj::MSE => objective::Objective::MSE,
            Obj::RMSE => objective::Objective::RMSE,
            Obj::CrossEntropy => objective::Objective::CrossEntropy,
            Obj::BinaryCrossEntropy => objective::Objective::BinaryCrossEntropy,
            Obj::KLDivergence => objective::Objective::KLDivergence,
        }
    }
    pub fn probabilistic(self) -> bool {
        matches!(self, Obj::CrossEntropy | Obj::BinaryCrossEntropy | Obj::KLDivergence)
    }
}

#[derive(Serialize, Deserialize, Clone, Debug, PartialEq)]
pub struct NetCfg {
    pub input: ShapeCfg,
    pub layers: Vec<LayerCfg>,
    /// skip connections (infrom, into), added in this order
    pub connects: Vec<(usize, usize)>,
    /// loop connections (outof, into, iterations, inskips)
    pub loopbacks: Vec<(usize, usize, usize, bool)>,
    pub skip_acc: Acc,
    pub loop_acc: Acc,
    /// `None` = keep the network's default optimizer (never call `set_optimizer`)
    pub optimizer: Option<OptCfg>,
    pub objective: Obj,
    pub clamp: Option<(f32, f32)>,
    /// `set_activation(layer, activation)` calls made after the layers are added
    #[serde(default)]
    pub set_activations: Vec<(usize, Act)>,
    /// if set, the final dense layer is *added* with this activation and switched to the one
    /// in `layers` afterwards by `set_activation` (the activation in `layers` is always the
    /// effective one, which is what every oracle reads)
    #[serde(default)]
    pub built_last_act: Option<Act>,
    /// gradient scaling function handed to `loopback`: 0 = 1/x, 1 = constant 1, 2 = 1/sqrt(x)
    #[serde(default)]
    pub loop_scale: u8,
}

impl NetCfg {
    pub fn plain(input: ShapeCfg, layers: Vec<LayerCfg>) -> NetCfg {
        NetCfg {
            input,
            layers,
            connects: Vec::new(),
            loopbacks: Vec::new(),
            skip_acc: Acc::Add,
            loop_acc: Acc::Mean,
            optimizer: None,
            objective: Obj::MSE,
            clamp: None,
            set_activations: Vec::new(),
            built_last_act: None,
            loop_scale: 0,
        }
    }

    /// Shapes at every layer boundary: `shapes[i]` is the input of layer `i` as the layer
    /// sees it, `shapes[len]` the network output. `None` if the layers do not fit.
    pub fn shapes(&self) -> Option<Vec<ShapeCfg>> {
        let mut out = vec![self.input];
        let mut s = self.input;
        for l in &self.layers {
            s = l.output(s)?;
            out.push(s);
        }
        Some(out)
    }

    pub fn output_count(&self) -> Option<usize> {
        self.shapes().map(|s| s.last().unwrap().count())
    }

    pub fn last_softmax(&self) -> bool {
        matches!(self.layers.last(), Some(LayerCfg::Dense { act: Act::Softmax, .. }))
    }

    pub fn has_dropout(&self) -> bool {
        self.layers.iter().any(|l| l.dropout().is_some())
    }

    pub fn without_dropout(&self) -> NetCfg {
        let mut n = self.clone();
        n.layers = n.layers.iter().map(|l| l.without_dropout()).collect();
        n
    }

    /// Build the network through the public API. Panics (like the library) if the
    /// configuration is rejected; callers run this under `catch_unwind`.
    pub fn build(&self) -> network::Network {
        crate::exec::set_phase("build:layers");
        let mut net = network::Network::new(self.input.to_lib());
        for (i, layer) in self.layers.iter().enumerate() {
            match layer {
                LayerCfg::Dense { out, act, bias, dropout } => {
                    let built = match self.built_last_act {
                        Some(a) if i + 1 == self.layers.len() => a,
                        _ => *act,
                    };
                    net.dense(*out, built.to_lib(), *bias, *dropout)
                }
                LayerCfg::Conv { filters, kernel, stride, padding, dilation, act, dropout } => net
                    .convolution(
                        *filters,
                        *kernel,
                        *stride,
                        *padding,
                        *dilation,
                        act.to_lib(),
                        *dropout,
                    ),
                LayerCfg::Deconv { filters, kernel, stride, padding, act, dropout } => {
                    net.deconvolution(*filters, *kernel, *stride, *padding, act.to_lib(), *dropout)
                }
                LayerCfg::Maxpool { kernel, stride } => net.maxpool(*kernel, *stride),
                LayerCfg::Feedback { layers, loops, inskips, outskips, acc } => net.feedback(
                    layers.iter().map(|l| l.to_feedback_layer()).collect(),
                    *loops,
                    *inskips,
                    *outskips,
                    acc.to_lib(),
                ),
            }
        }
        for (layer, act) in &self.set_activations {
            net.set_activation(*layer, act.to_lib());
        }
        if self.built_last_act.is_some() {
            if let Some(LayerCfg::Dense { act, .. }) = self.layers.last() {
                net.set_activation(self.layers.len() - 1, act.to_lib());
            }
        }
        crate::exec::set_phase("build:connect");
        for (from, to) in &self.connects {
            net.connect(*from, *to);
        }
        for (outof, into, iterations, inskips) in &self.loopbacks {
            let scale: tensor::Scale = match self.loop_scale {
                1 => Arc::new(|_| 1.0),
                2 => Arc::new(|x: f32| 1.0 / x.sqrt()),
                _ => Arc::new(|x| 1.0 / x),
            };
            net.loopback(*outof, *into, *iterations, scale, *inskips);
        }
        net.set_accumulation(self.skip_acc.to_lib(), self.loop_acc.to_lib());
        if let Some(opt) = &self.optimizer {
            crate::exec::set_phase("build:optimizer");
            net.set_optimizer(opt.to_lib());
        }
        crate::exec::set_phase("build:done");
        net.set_objective(self.objective.to_lib(), self.clamp);
        net
    }

    /// The "snapshot" idiom (`Network` is not `Clone`): a fresh network that takes over the
    /// public fields of `src` and is configured through the setters. It computes what `src`
    /// computes; anything the library caches outside `layers` while layers are *added* is
    /// absent here.
    pub fn snapshot_of(&self, src: &network::Network) -> network::Network {
        let mut s = network::Network::new(self.input.to_lib());
        s.layers = src.layers.clone();
        s.connect = src.connect.clone();
        s.loopbacks = src.loopbacks.clone();
        s.set_accumulation(self.skip_acc.to_lib(), self.loop_acc.to_lib());
        s.set_objective(self.objective.to_lib(), self.clamp);
        s
    }

    pub fn input_tensor(&self, flat: &[f32]) -> tensor::Tensor {
        let t = tensor::Tensor::single(flat.to_vec());
        match self.input {
            ShapeCfg::Flat(_) => t,
            ShapeCfg::Image(c, h, w) => t.reshape(tensor::Shape::Triple(c, h, w)),
        }
    }
}

/// Flatten any numeric tensor (row-major), including the ranks `get_flat` refuses.
pub fn flat(t: &tensor::Tensor) -> Vec<f32> {
    fn go(d: &tensor::Data, out: &mut Vec<f32>) {
        match d {
            tensor::Data::Single(v) => out.extend_from_slice(v),
            tensor::Data::Double(v) => v.iter().for_each(|r| out.extend_from_slice(r)),
            tensor::Data::Triple(v) => {
                v.iter().for_each(|c| c.iter().for_each(|r| out.extend_from_slice(r)))
            }
            tensor::Data::Quadruple(v) => v.iter().for_each(|f| {
                f.iter().for_each(|c| c.iter().for_each(|r| out.extend_from_slice(r)))
            }),
            tensor::Data::Nested(ts) => ts.iter().for_each(|t| go(&t.data, out)),
            tensor::Data::NestedOptional(ts) => ts.iter().for_each(|t| {
                if let Some(t) = t {
                    go(&t.data, out)
                }
            }),
            tensor::Data::Quintuple(_) => {}
        }
    }
    let mut out = Vec::new();
    go(&t.data, &mut out);
    out
}

/// Overwrite the numbers of a tensor in place (row-major), keeping its shape.
pub fn fill(t: &mut tensor::Tensor, values: &[f32]) {
    let mut it = values.iter();
    match &mut t.data {
        tensor::Data::Single(v) => v.iter_mut().for_each(|x| *x = *it.next().unwrap()),
        tensor::Data::Double(v) => {
            v.iter_mut().for_each(|r| r.iter_mut().for_each(|x| *x = *it.next().unwrap()))
        }
        tensor::Data::Triple(v) => v.iter_mut().for_each(|c| {
            c.iter_mut().for_each(|r| r.iter_mut().for_each(|x| *x = *it.next().unwrap()))
        }),
        _ => panic!("harness: unsupported parameter rank"),
    }
    assert!(it.next().is_none(), "harness: parameter length mismatch");
}

/// All parameters of a network: one vector per parameter tensor, in layer order
/// (feedback blocks contribute every unrolled layer).
pub fn parameters(net: &network::Network) -> Vec<Vec<f32>> {
    net.layers
        .iter()
        .flat_map(|l| neurons::verif::layer_parameters(l))
        .map(flat)
        .collect()
}

pub fn set_parameters(net: &mut network::Network, values: &[Vec<f32>]) {
    let mut it = values.iter();
    for layer in net.layers.iter_mut() {
        for t in neurons::verif::layer_parameters_mut(layer) {
            fill(t, it.next().expect("harness: too few parameter tensors"));
        }
    }
    assert!(it.next().is_none(), "harness: too many parameter tensors");
}

pub fn training_flags(net: &network::Network) -> Vec<bool> {
    net.layers.iter().flat_map(|l| neurons::verif::layer_training(l)).collect()
}

pub fn bits(v: &[f32]) -> Vec<u32> {
    v.iter().map(|x| x.to_bits()).collect()
}

/// Element-wise `a += b` written independently of the library's `Tensor::add_inplace`
/// (the reference trainers must not inherit a defect of the code under test). Panics on a
/// structural mismatch, which would be a harness error.
pub fn add_tensor(a: &mut tensor::Tensor, b: &tensor::Tensor) {
    fn go(a: &mut tensor::Data, b: &tensor::Data) {
        match (a, b) {
            (tensor::Data::Single(x), tensor::Data::Single(y)) => {
                assert_eq!(x.len(), y.len());
                for (p, q) in x.iter_mut().zip(y.iter()) {
                    *p += *q;
                }
            }
            (tensor::Data::Double(x), tensor::Data::Double(y)) => {
                assert_eq!(x.len(), y.len());
                for (r, s) in x.iter_mut().zip(y.iter()) {
                    assert_eq!(r.len(), s.len());
                    for (p, q) in r.iter_mut().zip(s.iter()) {
                        *p += *q;
                    }
                }
            }
            (tensor::Data::Triple(x), tensor::Data::Triple(y)) => {
                assert_eq!(x.len(), y.len());
                for (c, d) in x.iter_mut().zip(y.iter()) {
                    for (r, s) in c.iter_mut().zip(d.iter()) {
                        for (p, q) in r.iter_mut().zip(s.iter()) {
                            *p += *q;
                        }
                    }
                }
            }
            (tensor::Data::Quadruple(x), tensor::Data::Quadruple(y)) => {
                assert_eq!(x.len(), y.len());
                for (f, g) in x.iter_mut().zip(y.iter()) {
                    for (c, d) in f.iter_mut().zip(g.iter()) {
                        for (r, s) in c.iter_mut().zip(d.iter()) {
                            for (p, q) in r.iter_mut().zip(s.iter()) {
                                *p += *q;
                            }
                        }
                    }
                }
            }
            (tensor::Data::Nested(x), tensor::Data::Nested(y)) => {
                assert_eq!(x.len(), y.len());
                for (t, u) in x.iter_mut().zip(y.iter()) {
                    go(&mut t.data, &u.data);
                }
            }
            (tensor::Data::NestedOptional(x), tensor::Data::NestedOptional(y)) => {
                assert_eq!(x.len(), y.len());
                for (t, u) in x.iter_mut().zip(y.iter()) {
                    match (t.as_mut(), u.as_ref()) {
                        (Some(t), Some(u)) => go(&mut t.data, &u.data),
                        (None, None) => {}
                        _ => panic!("harness: optional gradient present on one side only"),
                    }
                }
            }
            (tensor::Data::Quintuple(_), tensor::Data::Quintuple(_)) => {}
            _ => panic!("harness: gradient tensors of different kinds"),
        }
    }
    go(&mut a.data, &b.data);
}
