//! nsim — deterministic-simulation harness for hallvardnmbu/neurons.
//!
//! usage: nsim <ID> quick|thorough [--out FILE]
//!        nsim replay <file> [--out FILE]
//! Official output (VIOLATION / KNOWN-FINDING / summary lines) goes to --out (default
//! stdout); the library's own println!s go to the process stdout, which the `check`
//! wrapper discards.

mod cfg;
mod core;
mod exec;
mod gen;
mod props;
mod rng;
mod scenario;
#[path = "../../sim/fidelity.rs"]
mod fidelity;

use crate::core::{drive, replay, Tier};
use std::io::Write;

fn main() {
    let args: Vec<String> = std::env::args().collect();
    let mut out_path: Option<String> = None;
    let mut pos: Vec<String> = Vec::new();
    let mut i = 1;
    while i < args.len() {
        if args[i] == "--out" && i + 1 < args.len() {
            out_path = Some(args[i + 1].clone());
            i += 2;
        } else {
            pos.push(args[i].clone());
            i += 1;
        }
    }
    let mut out: Box<dyn Write> = match &out_path {
        Some(p) => Box::new(std::fs::File::create(p).unwrap_or_else(|e| {
            eprintln!("harness error: cannot create {}: {}", p, e);
            std::process::exit(2);
        })),
        None => Box::new(std::io::stdout()),
    };
    exec::install_panic_hook();
    if pos.first().map(|s| s.as_str()) == Some("fidelity") {
        // split-tree log of the simulated pool, width 1, sequential schedule
        for inside in [false, true] {
            rayon_core::sim::begin(rayon_core::sim::Config { width: 1, policy: rayon_core::sim::Policy::Sequential, seed: 0, replay: None, inside });
            let log = fidelity::fidelity_log();
            let _ = rayon_core::sim::end();
            let _ = writeln!(out, "== called from {} the pool", if inside { "inside" } else { "outside" });
            let _ = write!(out, "{}", log);
        }
        let _ = out.flush();
        std::process::exit(0);
    }
    if pos.first().map(|s| s.as_str()) == Some("export-e2") {
        // Small generated scenarios for engine E2 (the real pool under Miri): drawn from the
        // same swarm generator as C05, cut down to what Miri can execute in under a minute,
        // and kept only if the native reference execution completes.
        let count: usize = pos.get(1).and_then(|s| s.parse().ok()).unwrap_or(12);
        let seed = core::verif_seed();
        let mut kept: Vec<scenario::Scenario> = Vec::new();
        let mut i = 0u64;
        while kept.len() < count && i < 4000 {
            let mut rng = rng::Rng::for_run(seed, "E2", i);
            i += 1;
            let mut sc = props::c05::gen_scenario(&mut rng, true);
            let spatial = sc.net.layers.iter().any(|l| !matches!(l, cfg::LayerCfg::Dense { .. }));
            if sc.net.layers.len() > 3 || sc.net.shapes().map(|v| v.iter().any(|s| s.count() > 40)).unwrap_or(true) {
                continue;
            }
            let n = sc.train.len().min(5).max(2.min(sc.train.len()));
            sc.train.x.truncate(n);
            sc.train.y.truncate(n);
            sc.batch = sc.batch.min(n).max(if n >= 2 { 2 } else { 1 });
            sc.epochs = 1;
            if let Some(v) = sc.val.as_mut() {
                v.x.truncate(2);
                v.y.truncate(2);
            }
            sc.eval = None;
            sc.print = None;
            // two parallel chunks of predict_batch only for the cheap (dense-only) networks
            let want = if spatial { 3 } else { 66 };
            while sc.pred.len() < want {
                let x = gen::gen_input(&mut rng, &sc.net);
                sc.pred.push(x);
            }
            sc.pred.truncate(want);
            let env = exec::Env::reference((424_242, 1_337));
            let (r, _) = exec::run_env(&env, |ctx| scenario::execute_full(&sc, ctx));
            if r.is_ok() {
                kept.push(sc);
            }
        }
        let _ = writeln!(out, "{}", serde_json::to_string(&kept).unwrap());
        let _ = out.flush();
        std::process::exit(0);
    }
    if pos.len() < 2 {
        eprintln!("usage: nsim <ID> quick|thorough | nsim replay <file>");
        std::process::exit(2);
    }
    macro_rules! dispatch {
        ($id:expr, $call:ident, $($arg:expr),*) => {
            match $id {
                "C03" => $call(&props::c03::C03, $($arg),*),
                "C04" => $call(&props::c04::C04, $($arg),*),
                "C05" => $call(&props::c05::C05, $($arg),*),
                "C09" => $call(&props::c09::C09, $($arg),*),
                "C10" => $call(&props::c10::C10, $($arg),*),
                "C12" => $call(&props::c12::C12, $($arg),*),
                "C13" => $call(&props::c13::C13, $($arg),*),
                other => {
                    eprintln!("harness error: unknown property `{}`", other);
                    2
                }
            }
        };
    }
    let code = if pos[0] == "replay" {
        let text = std::fs::read_to_string(&pos[1]).unwrap_or_else(|e| {
            eprintln!("harness error: cannot read {}: {}", pos[1], e);
            std::process::exit(2);
        });
        let v: serde_json::Value = serde_json::from_str(&text).unwrap_or_else(|e| {
            eprintln!("harness error: {} is not JSON: {}", pos[1], e);
            std::process::exit(2);
        });
        let id = v["property"].as_str().unwrap_or("").to_string();
        dispatch!(id.as_str(), replay, &v, &mut *out)
    } else {
        let tier = match pos[1].as_str() {
            "quick" => Tier::Quick,
            "thorough" => Tier::Thorough,
            _ => {
                eprintln!("harness error: tier must be quick or thorough");
                std::process::exit(2);
            }
        };
        dispatch!(pos[0].as_str(), drive, tier, &mut *out)
    };
    let _ = out.flush();
    std::process::exit(code);
}
