//! nsim — deterministic-simulation harness for hallvardnmbu/neurons.
//!
//! usage: nsim <ID> quick|thorough [--out FILE]
//!        nsim replay <file> [--out FILE]
//! Official output (VIOLATION / KNOWN-FINDING / summary lines) goes to --out (default
//! stdout); the library's own println!s go to the process stdout, which the `check`
//! wrapper discards.

mod cfg;
mod core;
mod exec;
mod gen;
mod props;
mod rng;
mod scenario;
#[path = "../../sim/fidelity.rs"]
mod fidelity;

use crate::core::{drive, replay, Tier};
use std::io::Write;

fn main() {
    let args: Vec<String> = std::env::args().collect();
    let mut out_path: Option<String> = None;
    let mut pos: Vec<String> = Vec::new();
    let mut i = 1;
    while i < args.len() {
        if args[i] == "--out" && i + 1 < args.len() {
            out_path = Some(args[i + 1].clone());
            i += 2;
        } else {
            pos.push(args[i].clone());
            i += 1;
        }
    }
    let mut out: Box<dyn Write> = match &out_path {
        Some(p) => Box::new(std::fs::File::create(p).unwrap_or_else(|e| {
            eprintln!("harness error: cannot create {}: {}", p, e);
            std::process::exit(2);
        })),
        None => Box::new(std::io::stdout()),
    };
    exec::install_panic_hook();
    if pos.first().map(|s| s.as_str()) == Some("fidelity") {
        // split-tree log of the simulated pool, width 1, sequential schedule
        for inside in [false, true] {
            rayon_core::sim::begin(rayon_core::sim::Config { width: 1, policy: rayon_core::sim::Policy::Sequential, seed: 0, replay: None, inside });
            let log = fidelity::fidelity_log();
            let _ = rayon_core::sim::end();
            let _ = writeln!(out, "== called from {} the pool", if inside { "inside" } else { "outside" });
            let _ = write!(out, "{}", log);
        }
        let _ = out.flush();
        std::process::exit(0);
    }
    if pos.len() < 2 {
        eprintln!("usage: nsim <ID> quick|thorough | nsim replay <file>");
        std::process::exit(2);
    }
    macro_rules! dispatch {
        ($id:expr, $call:ident, $($arg:expr),*) => {
            match $id {
                "C03" => $call(&props::c03::C03, $($arg),*),
                "C04" => $call(&props::c04::C04, $($arg),*),
                "C05" => $call(&props::c05::C05, $($arg),*),
                "C09" => $call(&props::c09::C09, $($arg),*),
                "C10" => $call(&props::c10::C10, $($arg),*),
                "C12" => $call(&props::c12::C12, $($arg),*),
                "C13" => $call(&props::c13::C13, $($arg),*),
                other => {
                    eprintln!("harness error: unknown property `{}`", other);
                    2
                }
            }
        };
    }
    let code = if pos[0] == "replay" {
        let text = std::fs::read_to_string(&pos[1]).unwrap_or_else(|e| {
            eprintln!("harness error: cannot read {}: {}", pos[1], e);
            std::process::exit(2);
        });
        let v: serde_json::Value = serde_json::from_str(&text).unwrap_or_else(|e| {
            eprintln!("harness error: {} is not JSON: {}", pos[1], e);
            std::process::exit(2);
        });
        let id = v["property"].as_str().unwrap_or("").to_string();
        dispatch!(id.as_str(), replay, &v, &mut *out)
    } else {
        let tier = match pos[1].as_str() {
            "quick" => Tier::Quick,
            "thorough" => Tier::Thorough,
            _ => {
                eprintln!("harness error: tier must be quick or thorough");
                std::process::exit(2);
            }
        };
        dispatch!(pos[0].as_str(), drive, tier, &mut *out)
    };
    let _ = out.flush();
    std::process::exit(code);
}
