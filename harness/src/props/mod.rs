pub mod c05;
