pub mod c03;
pub mod c03_net;
pub mod c04;
pub mod c05;
pub mod c09;
pub mod c10;
pub mod c12;
pub mod c13;
