//! C03, network-level variant: the parameter slots are the parameter tensors of a whole
//! network and the updates go through `Network::update` / `Feedback::update`, i.e. through
//! the `[layer][filter][bias]` slot addressing the anchors name. The gradients fed to each
//! step are recorded (they are exogenous to the reference), and every parameter element is
//! compared, after every step, with the documented rule applied with that element's own
//! state — for feedback blocks: per unrolled copy, followed by the configured coupling.

use neurons::{objective, tensor};
use serde::{Deserialize, Serialize};
use serde_json::json;

use super::c03::{reference_step, substituted, RefState};
use crate::cfg::*;
use crate::core::*;
use crate::exec::*;
use crate::gen::*;
use crate::rng::Rng;
use crate::scenario::{shrink_net, targets, tensors};

#[derive(Serialize, Deserialize, Clone, Debug, PartialEq)]
pub struct NetHistory {
    pub net: NetCfg,
    pub clock: (u64, u64),
    pub data: Data,
    /// (step number, indices of the samples whose gradients are summed for this step)
    pub steps: Vec<(i32, Vec<usize>)>,
    /// indices of steps (all with step number 1) that are delivered through the public
    /// `Network::learn` (one epoch, one batch holding the step's samples) instead of the
    /// update hook: the optimizer state must survive from one `learn` call to the next
    #[serde(default)]
    pub learn_steps: Vec<usize>,
    /// indices of steps before which the *same* optimizer (kind and hyper-parameters) is
    /// attached again with `set_optimizer`: attaching starts from fresh (zero) state,
    /// however similar the new optimizer is to the old one
    #[serde(default)]
    pub reattach: Vec<usize>,
}

pub fn generate(rng: &mut Rng, opt: &OptCfg) -> NetHistory {
    let mut opts = GenOpts::swarm(rng);
    opts.dropout = false;
    opts.loopback = false;
    opts.connect = rng.chance(0.2);
    opts.max_hidden = rng.range(0, 3);
    let mut net = gen_net(rng, &opts);
    net.optimizer = Some(opt.clone());
    net.objective = if net.last_softmax() { Obj::CrossEntropy } else { Obj::MSE };
    net.clamp = None;
    let n = rng.range(1, 4);
    let data = gen_data(rng, &net, n);
    let count = if crate::gen::scale() && !very_wide(&net) { rng.range(40, 300) } else { rng.range(1, 12) };
    let style = rng.below(3);
    let per_epoch = rng.range(1, 3);
    let steps: Vec<(i32, Vec<usize>)> = (0..count)
        .map(|t| {
            let stepnr = match style {
                0 => t as i32 + 1,
                1 => (t / per_epoch) as i32 + 1,
                _ => 1,
            };
            let k = rng.range(1, n);
            (stepnr, (0..k).map(|_| rng.below(n)).collect())
        })
        .collect();
    let (clock, _) = draw_clock(rng);
    let mut learn_steps = Vec::new();
    if rng.chance(0.35) {
        for (t, (stepnr, _)) in steps.iter().enumerate() {
            if *stepnr == 1 && rng.chance(0.6) {
                learn_steps.push(t);
            }
        }
    }
    let mut reattach = Vec::new();
    if rng.chance(0.15) {
        for t in 1..steps.len() {
            if rng.chance(0.3) {
                reattach.push(t);
            }
        }
    }
    NetHistory { net, clock, data, steps, learn_steps, reattach }
}

/// One parameter tensor's gradient for a step, in the parameter's own row-major order.
type Flat = Vec<f32>;

struct Recorded {
    /// params[t][p] : parameter tensor p after t steps (t = 0: initial)
    params: Vec<Vec<Flat>>,
    /// grads[t][p] : gradient handed to the optimizer for parameter tensor p at step t
    grads: Vec<Vec<Flat>>,
}

fn nested(t: &tensor::Tensor) -> Vec<Option<tensor::Tensor>> {
    match &t.data {
        tensor::Data::Nested(v) => v.iter().cloned().map(Some).collect(),
        tensor::Data::NestedOptional(v) => v.clone(),
        _ => Vec::new(),
    }
}

/// Gradients of one (plain) layer in the order of `layer_parameters`.
fn layer_grads(layer: &LayerCfg, w: &tensor::Tensor, b: Option<&tensor::Tensor>, out: &mut Vec<Flat>) {
    match layer {
        LayerCfg::Dense { bias, .. } => {
            out.push(flat(w));
            if *bias {
                out.push(b.map(flat).unwrap_or_default());
            }
        }
        LayerCfg::Conv { filters, .. } | LayerCfg::Deconv { filters, .. } => {
            let all = flat(w);
            let per = all.len() / (*filters).max(1);
            for f in 0..*filters {
                out.push(all[f * per..(f + 1) * per].to_vec());
            }
        }
        LayerCfg::Maxpool { .. } => {}
        LayerCfg::Feedback { layers, loops, .. } => {
            let ws = nested(w);
            let bs = b.map(nested).unwrap_or_default();
            let unrolled = layers.len() * loops;
            for u in 0..unrolled {
                let j = unrolled - 1 - u;
                let wu = ws.get(j).cloned().flatten();
                let bu = bs.get(j).cloned().flatten();
                if let Some(wu) = wu {
                    layer_grads(&layers[u % layers.len()], &wu, bu.as_ref(), out);
                }
            }
        }
    }
}

fn execute(h: &NetHistory) -> Recorded {
    let mut net = h.net.build();
    let objective = objective::Function::create(h.net.objective.to_lib(), h.net.clamp);
    let xs = tensors(&h.net, &h.data.x);
    let ys = targets(&h.data.y);
    let mut rec = Recorded { params: vec![parameters(&net)], grads: Vec::new() };
    let layers = h.net.layers.len();
    for (t, (stepnr, group)) in h.steps.iter().enumerate() {
        if h.reattach.contains(&t) {
            if let Some(opt) = &h.net.optimizer {
                set_phase("build:optimizer");
                net.set_optimizer(opt.to_lib());
            }
        }
        let mut sum_w: Vec<tensor::Tensor> = Vec::new();
        let mut sum_b: Vec<Option<tensor::Tensor>> = Vec::new();
        set_phase("gradients");
        for i in group {
            let (pre, post, max, fbs) = net.forward(&xs[*i]);
            let (_, gradient) = objective.loss(post.last().unwrap(), &ys[*i]);
            let (wg, bg) = net.verif_backward(gradient, &pre, &post, &max, fbs);
            if sum_w.is_empty() {
                sum_w = wg;
                sum_b = bg;
            } else {
                for (s, g) in sum_w.iter_mut().zip(wg.iter()) {
                    add_tensor(s, g);
                }
                for (s, g) in sum_b.iter_mut().zip(bg.iter()) {
                    if let (Some(s), Some(g)) = (s.as_mut(), g.as_ref()) {
                        add_tensor(s, g);
                    }
                }
            }
        }
        let mut g = Vec::new();
        for (l, layer) in h.net.layers.iter().enumerate() {
            let i = layers - 1 - l;
            layer_grads(layer, &sum_w[i], sum_b[i].as_ref(), &mut g);
        }
        rec.grads.push(g);
        set_phase("update");
        if *stepnr == 1 && h.learn_steps.contains(&t) {
            // the same step through the public route: one epoch (step number 1), one batch
            set_phase("update:learn");
            let bx: Vec<&tensor::Tensor> = group.iter().map(|i| &xs[*i]).collect();
            let by: Vec<&tensor::Tensor> = group.iter().map(|i| &ys[*i]).collect();
            net.learn(&bx, &by, None, group.len(), 1, None);
        } else {
            net.verif_update(*stepnr, sum_w, sum_b);
        }
        rec.params.push(parameters(&net));
    }
    rec
}

fn couple(acc: Acc, copies: &[f64]) -> f64 {
    match acc {
        Acc::Add => copies.iter().sum(),
        Acc::Subtract => copies[0] - copies[1..].iter().sum::<f64>(),
        Acc::Multiply => copies.iter().product(),
        Acc::Mean => copies.iter().sum::<f64>() / copies.len() as f64,
        Acc::Overwrite => copies[0],
    }
}

pub fn check(opt: &OptCfg, h: &NetHistory, stats: &mut Stats) -> Outcome {
    stats.probe(&format!("optimizer_{}", opt.kind()), true);
    stats.probe("network_level", true);
    stats.probe("network_level_stateful", !matches!(opt, OptCfg::SGD { .. }));
    stats.probe(
        "network_level_conv_filters_ge_2",
        h.net.layers.iter().any(|l| matches!(l, LayerCfg::Conv { filters, .. } | LayerCfg::Deconv { filters, .. } if *filters >= 2)),
    );
    stats.probe("network_level_step_via_learn", h.steps.iter().enumerate().any(|(t, (nr, _))| *nr == 1 && t >= 1 && h.learn_steps.contains(&t)));
    stats.probe("network_level_optimizer_reattached", !h.reattach.is_empty() && !matches!(opt, OptCfg::SGD { .. }));
    stats.probe("network_level_feedback", h.net.layers.iter().any(|l| matches!(l, LayerCfg::Feedback { loops, .. } if *loops >= 2)));
    let env = Env::reference(h.clock);
    let (rec, info) = run_env(&env, |_| execute(h));
    stats.execution(&env, &info);
    stats.operations += h.steps.len() as u64;
    let rec = match rec {
        Ok(r) => r,
        Err(e) => {
            // forward / backward panics are the library's own shape limits (not C03's
            // business); a panic inside the optimizer step of a network whose gradients were
            // computed fine is one, unless it is a documented unsupported coupling
            if phase() == "build:optimizer" && !documented_unsupported(&e) {
                return Outcome::Violation(Violation {
                    class: "set_optimizer_panics".into(),
                    detail: format!("the network was built, but attaching the optimizer (state allocation per layer / filter / bias) panics: {}", panic_class(&e)),
                    signature: json!({ "optimizer": opt.kind(), "level": "network" }),
                });
            }
            // `learn` documents one panic of its own ("If the loss is NaN"); the forward and
            // backward passes of the same samples have already completed in phase "gradients"
            if phase() == "update:learn" && panic_class(&e).contains("Loss is NaN") {
                return Outcome::Degenerate("learn-delivered step: the loss is NaN (documented panic)".into());
            }
            if (phase() == "update" || phase() == "update:learn") && !documented_unsupported(&e) {
                return Outcome::Violation(Violation {
                    class: "network_update_panics".into(),
                    detail: format!("gradients were computed, but the optimizer step through Network::update panics: {}", panic_class(&e)),
                    signature: json!({ "optimizer": opt.kind(), "level": "network" }),
                });
            }
            return Outcome::Degenerate(format!("network history panics in {}: {}", phase(), panic_class(&e)));
        }
    };
    let sub = substituted(opt);
    let sig = json!({ "optimizer": opt.kind(), "level": "network" });

    // which parameter tensors form a coupled group: (tensor indices of all copies, coupling)
    let mut groups: Vec<(Vec<usize>, Option<Acc>)> = Vec::new();
    let mut p = 0usize;
    for layer in &h.net.layers {
        let count_of = |l: &LayerCfg| match l {
            LayerCfg::Dense { bias, .. } => 1 + *bias as usize,
            LayerCfg::Conv { filters, .. } | LayerCfg::Deconv { filters, .. } => *filters,
            _ => 0,
        };
        match layer {
            LayerCfg::Feedback { layers, loops, acc, .. } => {
                let per: usize = layers.iter().map(count_of).sum();
                for j in 0..per {
                    groups.push(((0..*loops).map(|r| p + r * per + j).collect(), Some(*acc)));
                }
                p += per * loops;
            }
            l => {
                for _ in 0..count_of(l) {
                    groups.push((vec![p], None));
                    p += 1;
                }
            }
        }
    }
    if p != rec.params[0].len() {
        return Outcome::HarnessError(format!("parameter tensor count {} does not match the configuration ({})", rec.params[0].len(), p));
    }

    // One-step-ahead comparison: at every step the reference starts from the *library's*
    // current (tied) value and applies the documented rule with its own, separately tracked
    // slot state (moments depend only on the recorded gradients, plus the decay term). The
    // value is re-anchored each step because the coupling of a feedback block feeds the
    // weights back into themselves (multiplicative coupling raises them to the power
    // `loops` per step), which would amplify harmless rounding differences of a free-running
    // reference without bound.
    // "moderate magnitude": the stream-level patterns go up to 1e3; at network level the
    // inputs of a step (current value, gradient) and every per-copy result must stay below
    // 1e6, so that neither the coupling product of up to 12 copies overflows single precision
    // nor a difference of huge terms is compared against a tiny result
    const MODERATE: f64 = 1e6;
    for (copies, acc) in &groups {
        let len = rec.params[0][copies[0]].len();
        for e in 0..len {
            let mut st64: Vec<RefState<f64>> = copies.iter().map(|_| RefState { w: 0.0, a: 0.0, b: 0.0, c: 0.0 }).collect();
            let mut st32: Vec<RefState<f32>> = copies.iter().map(|_| RefState { w: 0.0, a: 0.0, b: 0.0, c: 0.0 }).collect();
            for (t, (stepnr, _)) in h.steps.iter().enumerate() {
                if h.reattach.contains(&t) {
                    for st in st64.iter_mut() {
                        *st = RefState { w: 0.0, a: 0.0, b: 0.0, c: 0.0 };
                    }
                    for st in st32.iter_mut() {
                        *st = RefState { w: 0.0, a: 0.0, b: 0.0, c: 0.0 };
                    }
                }
                let before = rec.params[t][copies[0]][e];
                let mut after64 = Vec::new();
                let mut after32 = Vec::new();
                let mut inputs_ok = before.is_finite() && (before as f64).abs() < MODERATE;
                for (k, c) in copies.iter().enumerate() {
                    let g = match rec.grads[t].get(*c).and_then(|v| v.get(e)) {
                        Some(g) => *g,
                        None => return Outcome::HarnessError("gradient layout does not match the parameter layout".into()),
                    };
                    if !(g.is_finite() && (g as f64).abs() < MODERATE) {
                        inputs_ok = false;
                    }
                    st64[k].w = before as f64;
                    st32[k].w = before;
                    reference_step(&sub, &mut st64[k], g, *stepnr);
                    reference_step(&sub, &mut st32[k], g, *stepnr);
                    after64.push(st64[k].w);
                    after32.push(st32[k].w as f64);
                }
                // the property's precondition: finite inputs of moderate magnitude
                if !inputs_ok {
                    break;
                }
                let (w64, w32) = match acc {
                    Some(a) => (couple(*a, &after64), couple(*a, &after32)),
                    None => (after64[0], after32[0]),
                };
                if !(w64.is_finite() && w64.abs() < MODERATE)
                    || after64.iter().any(|a| !(a.abs() < MODERATE))
                    || st64.iter().any(|s| !(s.a.abs() < 1e12 && s.c.abs() < 1e12))
                {
                    break;
                }
                // error scale: the largest term that enters the coupling (a subtractive
                // coupling may cancel large terms into a small result)
                let scale = after64.iter().fold(w64.abs(), |m, a| m.max(a.abs()));
                if !((w32 - w64).abs() <= 1e-5 * (1.0 + scale)) {
                    break; // ill-conditioned from here on (the two references disagree)
                }
                for c in copies {
                    let lib = rec.params[t + 1][*c][e];
                    if !lib.is_finite() {
                        return Outcome::Violation(Violation {
                            class: "non_finite".into(),
                            detail: format!(
                                "network level: parameter tensor {} element {} becomes {} at step {} from {:e} (documented rule gives {:e})",
                                c, e, lib, t + 1, before, w64
                            ),
                            signature: sig,
                        });
                    }
                    if !((lib as f64 - w64).abs() <= 1e-4 * (1.0 + scale)) {
                        if std::env::var("VERIF_DEBUG_C03").is_ok() {
                            eprintln!("DEBUG copies {:?} acc {:?} elem {} step {} stepnr {}", copies, acc, e, t + 1, stepnr);
                            for (k, c) in copies.iter().enumerate() {
                                eprintln!("  copy {} tensor {}: before {:e} grad {:e} ref-after {:e} lib-after {:e} state a={:e} b={:e}", k, c, rec.params[t][*c][e], rec.grads[t][*c][e], after64[k], rec.params[t + 1][*c][e], st64[k].a, st64[k].b);
                            }
                            for tt in 0..=t {
                                eprintln!("  t={} grads {:?} params {:?}", tt, copies.iter().map(|c| rec.grads[tt][*c][e]).collect::<Vec<_>>(), copies.iter().map(|c| rec.params[tt][*c][e]).collect::<Vec<_>>());
                            }
                        }
                        return Outcome::Violation(Violation {
                            class: "network_slot_mismatch".into(),
                            detail: format!(
                                "network level: parameter tensor {} element {} at step {} (step number {}): from {:e} the library goes to {:e}, the documented rule with this slot's own state to {:e}",
                                c, e, t + 1, stepnr, before, lib, w64
                            ),
                            signature: sig,
                        });
                    }
                }
            }
        }
    }
    Outcome::Pass
}

pub fn shrink(h: &NetHistory) -> Vec<NetHistory> {
    let mut out = Vec::new();
    for keep in [h.steps.len() / 2, h.steps.len().saturating_sub(1)] {
        if keep >= 1 && keep < h.steps.len() {
            let mut n = h.clone();
            n.steps.truncate(keep);
            n.learn_steps.retain(|t| *t < keep);
            n.reattach.retain(|t| *t < keep);
            out.push(n);
        }
    }
    if !h.reattach.is_empty() {
        let mut n = h.clone();
        n.reattach.clear();
        out.push(n);
        for i in 0..h.reattach.len() {
            let mut n = h.clone();
            n.reattach.remove(i);
            out.push(n);
        }
    }
    if !h.learn_steps.is_empty() {
        let mut n = h.clone();
        n.learn_steps.clear();
        out.push(n);
        for i in 0..h.learn_steps.len() {
            let mut n = h.clone();
            n.learn_steps.remove(i);
            out.push(n);
        }
    }
    for (i, (_, group)) in h.steps.iter().enumerate() {
        if group.len() > 1 {
            let mut n = h.clone();
            n.steps[i].1.truncate(1);
            out.push(n);
        }
    }
    for net in shrink_net(&h.net) {
        if net.input == h.net.input && net.optimizer.is_some() && net.optimizer.as_ref().map(|o| o.kind()) == h.net.optimizer.as_ref().map(|o| o.kind()) {
            let mut n = h.clone();
            n.net = net;
            out.push(n);
        }
    }
    out
}
