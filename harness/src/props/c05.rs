//! C05 — results are independent of thread count and scheduling, and repeatable.
//!
//! One generated scenario is executed once under the reference environment (pool width 1,
//! sequential schedule, default hash seed) and then under `k` alternative environments
//! (other widths, steal/order decisions at every join, worker re-indexing, pool resized
//! between API calls, another hash seed) plus one exact repetition. Oracle: every
//! observation (per-epoch losses, accuracies, final parameters, validate result,
//! predict_batch outputs in order, training flags) is bit-identical, and a panic in one
//! execution is the same panic in all.

use serde::{Deserialize, Serialize};
use serde_json::json;

use crate::core::*;
use crate::exec::*;
use crate::gen::*;
use crate::rng::Rng;
use crate::scenario::*;

pub struct C05;

#[derive(Serialize, Deserialize, Clone, Debug)]
pub struct Case {
    pub sc: Scenario,
    pub reference: Env,
    pub alts: Vec<Env>,
}

pub fn gen_scenario(rng: &mut Rng, with_eval: bool) -> Scenario {
    let opts = GenOpts::swarm(rng);
    let mut net = gen_net(rng, &opts);
    // mostly small sets; one in eight is large enough that different split trees of the
    // parallel batch map contain leaves of three or more samples
    // very wide layers are expensive per sample: keep their data sets moderate
    let very_wide = very_wide(&net);
    let n = if scale() && very_wide {
        rng.range(17, 40)
    } else if scale() {
        // groups of 256 and more (and now and then 512 and more) samples: a parallel
        // reduction with a minimum leaf length of 64 (128) only starts to depend on the
        // pool width there
        match rng.below(10) {
            0 => rng.range(512, 530),
            1..=4 => rng.range(256, 400),
            _ => rng.range(100, 300),
        }
    } else {
        match rng.below(8) {
            0 => 1,
            1 => rng.range(2, 4),
            2 => rng.range(17, 48),
            _ => rng.range(2, 12),
        }
    };
    let batch = match rng.below(6) {
        _ if scale() && n >= 256 && rng.chance(0.6) => match rng.below(3) {
            0 => n,
            // (B > N; now and then the 'one full batch' idiom: the largest value there is)
        1 => if rng.chance(0.15) { usize::MAX } else { n + rng.range(1, 2) },
            _ => rng.range(256, n),
        },
        0 => 1,
        // (B > N; now and then the 'one full batch' idiom: the largest value there is)
        1 => if rng.chance(0.15) { usize::MAX } else { n + rng.range(1, 2) },
        2 => n,
        _ => {
            if n >= 17 {
                rng.range(17, n)
            } else {
                rng.range(1, n + 1)
            }
        }
    };
    if scale() && n >= 100 && rng.chance(0.7) {
        // the library sums (does not average) the gradients of a group: with hundreds of
        // samples per step the default-sized learning rates diverge to NaN within an epoch
        // or two and the case would be degenerate
        match net.optimizer.as_mut() {
            Some(o) => *o.lr_mut() /= n as f32,
            None => net.optimizer = Some(crate::cfg::OptCfg::SGD { lr: 0.1 / n as f32, decay: None }),
        }
    }
    let epochs = if scale() && n > 300 {
        rng.range(2, 5) as i32
    } else if scale() && !very_wide { rng.range(3, 12) as i32 } else { rng.range(1, 3) as i32 };
    let train = gen_data(rng, &net, n);
    let eval_size = |rng: &mut Rng| if very_wide { rng.range(60, 130) } else { eval_size(rng) };
    let val = if with_eval && rng.chance(0.5) {
        let v = if rng.chance(0.5) { eval_size(rng) } else { rng.range(1, 6) };
        Some(gen_data(rng, &net, v))
    } else {
        None
    };
    let eval = if with_eval && rng.chance(0.6) {
        let v = eval_size(rng);
        Some(gen_data(rng, &net, v))
    } else {
        None
    };
    let pred = if with_eval && rng.chance(0.6) {
        let m = eval_size(rng);
        (0..m).map(|_| gen_input(rng, &net)).collect()
    } else {
        Vec::new()
    };
    Scenario {
        net,
        train,
        batch,
        epochs,
        val,
        early_tol: rng.range(1, 4) as i32,
        eval,
        acc_tol: rng.pick(&[1e-6f32, 1e-3, 1e-1, 0.5]),
        pred,
        init_params: None,
        print: if rng.chance(0.3) { Some(rng.pick(&[1i32, 2, 3, 5, 50])) } else { None },
        // small cases only: k networks cost k times as much
        sweep: if !scale() && n <= 12 && rng.chance(0.12) { rng.range(2, 4) } else { 0 },
    }
}

fn run(sc: &Scenario, env: &Env, stats: &mut Stats) -> (Result<Obs, String>, RunInfo) {
    let (r, info) = run_env(env, |ctx| execute_full(sc, ctx));
    stats.execution(env, &info);
    stats.operations += 4;
    match &r {
        Ok(o) => stats.observe(o.digest()),
        Err(e) => stats.observe(crate::rng::hash_str(&panic_class(e))),
    }
    (r, info)
}

fn compare(a: &Result<Obs, String>, b: &Result<Obs, String>) -> Option<(String, String)> {
    match (a, b) {
        (Ok(x), Ok(y)) => x.diff(y).map(|(f, d)| (format!("differs:{}", f), d)),
        (Err(x), Err(y)) => {
            if panic_class(x) == panic_class(y) {
                None
            } else {
                Some(("differs:panic".to_string(), format!("panic `{}` vs `{}`", panic_class(x), panic_class(y))))
            }
        }
        (Ok(_), Err(y)) => Some(("differs:panic".to_string(), format!("reference completes, alternative panics: {}", panic_class(y)))),
        (Err(x), Ok(_)) => Some(("differs:panic".to_string(), format!("reference panics ({}), alternative completes", panic_class(x)))),
    }
}

impl Property for C05 {
    type Case = Case;

    fn id(&self) -> &'static str {
        "C05"
    }

    fn rule(&self) -> &'static str {
        "one case = one generated scenario (network, optimizer, objective, N/B/E, optional validation / validate / predict_batch data) executed under the reference environment and k alternative environments + 1 exact repetition; distinct = distinct hash of (network configuration, sizes, first datum); non-trivial = at least one alternative execution took a non-inline (steal) decision and the reference execution did not panic"
    }

    fn assumptions(&self) -> Vec<String> {
        vec![
            "E1 switches only at join boundaries; leaf jobs of sibling subtrees never overlap and nothing is preempted inside a leaf (covered by the E2 Miri cross-check in the thorough tier)".into(),
            "all nondeterminism reaches the library through rayon-core, Tensor::random's clock read and the HashMap hasher; a new direct use of std::thread / SystemTime / std HashMap would bypass the seams (the exact-repetition execution would still flag run-to-run differences)".into(),
            "networks are small (<= 5 layers, <= 200 elements per activation, batches <= 48), except for the scale stratum (about one case in seventy: up to 530 samples, groups of 256 and more, layers up to 130 wide, a few up to 16500)".into(),
        ]
    }

    fn runs(&self, tier: Tier) -> u64 {
        match tier {
            Tier::Quick => 20000,
            Tier::Thorough => 200000,
        }
    }

    fn required_probes(&self) -> Vec<&'static str> {
        vec![
            "batch_gt_1",
            "last_group_partial",
            "batch_gt_n",
            "eval_set_gt_chunk",
            "eval_set_not_multiple",
            "split_depth_ge_3",
            "feedback_loops_ge_3",
            "layer_conv",
            "layer_deconv",
            "layer_maxpool",
            "layer_feedback",
            "skip_connection",
            "loop_connection",
            "batch_ge_17",
            "group_ge_256",
            "group_ge_256_completes",
            "sweep_of_networks_in_one_pool",
            "print_some",
            "scale_stratum",
            "width_ge_1024",
        ]
    }

    fn generate(&self, rng: &mut Rng, tier: Tier) -> Case {
        let scale_case = begin_case(rng);
        let sc = gen_scenario(rng, true);
        let (clock, _) = draw_clock(rng);
        let k = match (tier, scale_case) {
            (_, true) => 3,
            (Tier::Quick, _) => 6,
            (Tier::Thorough, _) => 16,
        };
        let mut alts = Vec::new();
        // exact repetition of the reference
        alts.push(Env::reference(clock));
        // sequential schedule, different hash seed only
        let mut e = Env::reference(clock);
        e.hash_seed = rng.next_u64() | 1;
        alts.push(e);
        // the coarsest split tree there is: the caller is the only worker of a one-worker
        // pool (as under `ThreadPool::install`), nothing is injected and nothing is stolen.
        // From outside the pool every width starts with an injected (= migrated) top-level
        // join and therefore with a finer tree; a reduction whose leaves depend on the split
        // tree shows against this environment before it shows anywhere else.
        let mut e = Env::reference(clock);
        e.inside = true;
        alts.push(e);
        for i in 0..k {
            alts.push(draw_env(rng, clock, i % 3 != 0));
        }
        Case { sc, reference: Env::reference(clock), alts }
    }

    fn check(&self, case: &Case, stats: &mut Stats) -> Outcome {
        scenario_probes(&case.sc, stats);
        let (r0, info0) = run(&case.sc, &case.reference, stats);
        stats.probe("group_ge_256_completes", r0.is_ok() && case.sc.batch >= 256 && case.sc.train.len() >= 256);
        if let Some(d) = divergence(&case.reference, &info0) {
            return Outcome::HarnessError(d);
        }
        let limit = if r0.is_err() { 3 } else { case.alts.len() };
        for (i, env) in case.alts.iter().take(limit).enumerate() {
            let (r, info) = run(&case.sc, env, stats);
            if let Some(d) = divergence(env, &info) {
                return Outcome::HarnessError(d);
            }
            if let Some((class, detail)) = compare(&r0, &r) {
                // attribute the difference: hash seed alone, schedule alone, or neither
                let mut only_hash = case.reference.clone();
                only_hash.hash_seed = env.hash_seed;
                let (rh, _) = run_env(&only_hash, |ctx| execute_full(&case.sc, ctx));
                let mut only_sched = env.clone();
                only_sched.hash_seed = case.reference.hash_seed;
                only_sched.lenient = true;
                let (rs, _) = run_env(&only_sched, |ctx| execute_full(&case.sc, ctx));
                let by_hash = compare(&r0, &rh).is_some();
                let by_sched = compare(&r0, &rs).is_some();
                let cause = match (by_hash, by_sched) {
                    (true, false) => "hash_seed",
                    (false, true) => "schedule",
                    (true, true) => "hash_seed+schedule",
                    (false, false) => {
                        if *env == case.reference {
                            "repetition"
                        } else {
                            "interaction"
                        }
                    }
                };
                let fb_skips = case.sc.net.layers.iter().any(|l| {
                    matches!(l, crate::cfg::LayerCfg::Feedback { inskips, outskips, .. } if *inskips || *outskips)
                });
                return Outcome::Violation(Violation {
                    class,
                    detail: format!("alternative #{} (width {}, cause {}): {}", i, env.width, cause, detail),
                    signature: json!({
                        "cause": cause,
                        "feedback_block_with_skips": fb_skips,
                        "skip_connections": case.sc.net.connects.len(),
                    }),
                });
            }
        }
        match r0 {
            Ok(_) => Outcome::Pass,
            Err(e) => {
                if std::env::var("VERIF_DEBUG_PANIC_LOCATION").is_ok() {
                    eprintln!("PANIC-LOCATION {}", e.lines().last().unwrap_or(""));
                }
                Outcome::Degenerate(format!("reference panics: {}", panic_class(&e)))
            }
        }
    }

    fn pin(&self, case: &Case) -> Case {
        let mut c = case.clone();
        for env in c.alts.iter_mut() {
            let (_, info) = run_env(env, |ctx| execute_full(&case.sc, ctx));
            *env = to_replay(env, &info);
        }
        c
    }

    fn shrink(&self, case: &Case) -> Vec<Case> {
        let mut out = Vec::new();
        if case.alts.len() > 1 {
            for e in &case.alts {
                out.push(Case { sc: case.sc.clone(), reference: case.reference.clone(), alts: vec![e.clone()] });
            }
            return out;
        }
        for e in shrink_env(&case.alts[0]) {
            out.push(Case { sc: case.sc.clone(), reference: case.reference.clone(), alts: vec![e] });
        }
        for sc in shrink_scenario(&case.sc) {
            let mut alts = case.alts.clone();
            for e in alts.iter_mut() {
                e.lenient = true;
            }
            out.push(Case { sc, reference: case.reference.clone(), alts });
        }
        out
    }

    fn nontrivial_key(&self, case: &Case, stats: &Stats) -> Option<u64> {
        if stats.nonsequential_executions >= 1 {
            Some(scenario_key(&case.sc))
        } else {
            None
        }
    }

    fn sample(&self, case: &Case) -> serde_json::Value {
        json!({
            "network": case.sc.net,
            "train_samples": case.sc.train.len(),
            "batch": case.sc.batch,
            "epochs": case.sc.epochs,
            "validation_samples": case.sc.val.as_ref().map(|d| d.len()),
            "validate_samples": case.sc.eval.as_ref().map(|d| d.len()),
            "predict_batch_inputs": case.sc.pred.len(),
            "first_input": case.sc.train.x.first(),
            "first_target": case.sc.train.y.first(),
            "reference_env": case.reference,
            "alternative_envs": case.alts.iter().take(4).collect::<Vec<_>>(),
            "alternative_env_count": case.alts.len(),
        })
    }
}
