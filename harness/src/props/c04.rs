//! C04 — training is ordered mini-batch gradient-sum descent.
//!
//! `learn` runs under a drawn schedule; a twin network (same simulated clock => same
//! initial parameters) is driven by an executable reference trainer on the harness thread
//! with no parallel runtime at all: per epoch, per consecutive group of B samples, per
//! sample in order forward -> objective -> backward, gradients summed, one optimizer step
//! with step number = epoch. Refinement oracle: final parameters and the train-loss vector
//! agree (tolerance, so that a correct re-association of the sum is not an alarm).

use neurons::{objective, tensor};
use serde::{Deserialize, Serialize};
use serde_json::json;

use crate::cfg::*;
use crate::core::*;
use crate::exec::*;
use crate::gen::*;
use crate::rng::Rng;
use crate::scenario::*;

pub struct C04;

#[derive(Serialize, Deserialize, Clone, Debug)]
pub struct Case {
    pub sc: Scenario,
    pub env: Env,
    /// a second learn call on the same network; the *second* call is then the one compared
    /// (the equivalence must hold from whatever state the first call left behind)
    #[serde(default)]
    pub second: Option<Second>,
}

#[derive(Serialize, Deserialize, Clone, Debug)]
pub struct Second {
    pub train: Data,
    pub batch: usize,
    pub epochs: i32,
}

#[derive(Clone)]
pub struct Trained {
    pub train_loss: Vec<f32>,
    pub params: Vec<Vec<f32>>,
}

/// Association of the per-group gradient sum in the reference trainer. The property says
/// "the sum of the per-sample gradients" and fixes no association; `Forward` is what the
/// verdict is computed with, the other two are *conditioning probes*: when they lead the
/// reference itself to a different result, the trajectory amplifies last-bit differences
/// (sign-like Adam steps with beta2 = 0 or epsilon = 0, a cancelling centred variance, ...)
/// and no implementation can be told from a re-associated one there.
#[derive(Clone, Copy, PartialEq, Debug)]
pub enum SumOrder {
    Forward,
    Reverse,
    Pairwise,
}

thread_local! {
    static SUM_ORDER: std::cell::Cell<SumOrder> = std::cell::Cell::new(SumOrder::Forward);
}

pub fn with_sum_order<T>(order: SumOrder, f: impl FnOnce() -> T) -> T {
    SUM_ORDER.with(|c| c.set(order));
    let r = std::panic::catch_unwind(std::panic::AssertUnwindSafe(f));
    SUM_ORDER.with(|c| c.set(SumOrder::Forward));
    match r {
        Ok(v) => v,
        Err(p) => std::panic::resume_unwind(p),
    }
}

type Grads = (Vec<tensor::Tensor>, Vec<Option<tensor::Tensor>>);

fn add_grads(into: &mut Grads, from: &Grads) {
    for (s, g) in into.0.iter_mut().zip(from.0.iter()) {
        add_tensor(s, g);
    }
    for (s, g) in into.1.iter_mut().zip(from.1.iter()) {
        if let (Some(s), Some(g)) = (s.as_mut(), g.as_ref()) {
            add_tensor(s, g);
        }
    }
}

fn sum_grads(mut all: Vec<Grads>, order: SumOrder) -> Grads {
    match order {
        SumOrder::Forward => {
            let mut it = all.into_iter();
            let mut acc = it.next().unwrap_or_default();
            for g in it {
                add_grads(&mut acc, &g);
            }
            acc
        }
        SumOrder::Reverse => {
            all.reverse();
            sum_grads(all, SumOrder::Forward)
        }
        SumOrder::Pairwise => {
            while all.len() > 1 {
                let mut next = Vec::with_capacity((all.len() + 1) / 2);
                let mut it = all.into_iter();
                while let Some(mut a) = it.next() {
                    if let Some(b) = it.next() {
                        add_grads(&mut a, &b);
                    }
                    next.push(a);
                }
                all = next;
            }
            all.pop().unwrap_or_default()
        }
    }
}

fn set_training(net: &mut neurons::network::Network, on: bool) {
    for l in net.layers.iter_mut() {
        neurons::verif::set_layer_training(l, on);
    }
}

/// The property's right-hand side, executed literally, on an existing network.
pub fn reference_epochs(
    net: &mut neurons::network::Network,
    net_cfg: &NetCfg,
    data: &Data,
    batch: usize,
    epochs: i32,
) -> Vec<f32> {
    let objective = objective::Function::create(net_cfg.objective.to_lib(), net_cfg.clamp);
    let xs = tensors(net_cfg, &data.x);
    let ys = targets(&data.y);
    let mut train_loss = Vec::new();
    set_training(net, true);
    for epoch in 1..=epochs {
        let mut loss_epoch = 0.0f32;
        let mut groups = 0usize;
        let mut start = 0usize;
        while start < xs.len() {
            let end = start.saturating_add(batch).min(xs.len());
            let mut all: Vec<Grads> = Vec::new();
            let mut losses: Vec<f32> = Vec::new();
            for i in start..end {
                let (pre, post, max, fbs) = net.forward(&xs[i]);
                let (loss, gradient) = objective.loss(post.last().unwrap(), &ys[i]);
                if loss.is_nan() {
                    panic!("Loss is NaN. Aborting.");
                }
                all.push(net.verif_backward(gradient, &pre, &post, &max, fbs));
                losses.push(loss);
            }
            let (sum_w, sum_b) = sum_grads(all, SUM_ORDER.with(|c| c.get()));
            loss_epoch += losses.iter().sum::<f32>() / losses.len() as f32;
            groups += 1;
            net.verif_update(epoch, sum_w, sum_b);
            start = end;
        }
        train_loss.push(loss_epoch / groups as f32);
    }
    set_training(net, false);
    train_loss
}

pub fn reference_trainer(sc: &Scenario, epochs: i32) -> Trained {
    let mut net = sc.build();
    let train_loss = reference_epochs(&mut net, &sc.net, &sc.train, sc.batch, epochs);
    Trained { train_loss, params: parameters(&net) }
}

/// Two consecutive training calls on one network (optimizer state carries over).
fn reference_two_calls(sc: &Scenario, second: &Second) -> Trained {
    let mut net = sc.build();
    let _ = reference_epochs(&mut net, &sc.net, &sc.train, sc.batch, sc.epochs);
    let train_loss = reference_epochs(&mut net, &sc.net, &second.train, second.batch, second.epochs);
    Trained { train_loss, params: parameters(&net) }
}

fn learn_under_test(sc: &Scenario, second: Option<&Second>, ctx: &mut Ctx) -> Trained {
    ctx.op();
    let mut net = sc.build();
    let xs = tensors(&sc.net, &sc.train.x);
    let ys = targets(&sc.train.y);
    let xr: Vec<&tensor::Tensor> = xs.iter().collect();
    let yr: Vec<&tensor::Tensor> = ys.iter().collect();
    let (vx, vy) = match &sc.val {
        Some(v) => (tensors(&sc.net, &v.x), targets(&v.y)),
        None => (Vec::new(), Vec::new()),
    };
    let vxr: Vec<&tensor::Tensor> = vx.iter().collect();
    let vyr: Vec<&tensor::Tensor> = vy.iter().collect();
    let validation = if sc.val.is_some() { Some((&vxr, &vyr, sc.early_tol)) } else { None };
    ctx.op();
    let (mut tl, _, _) = net.learn(&xr, &yr, validation, sc.batch, sc.epochs, sc.print);
    if let Some(second) = second {
        let xs2 = tensors(&sc.net, &second.train.x);
        let ys2 = targets(&second.train.y);
        let xr2: Vec<&tensor::Tensor> = xs2.iter().collect();
        let yr2: Vec<&tensor::Tensor> = ys2.iter().collect();
        ctx.op();
        let (tl2, _, _) = net.learn(&xr2, &yr2, None, second.batch, second.epochs, None);
        tl = tl2;
    }
    Trained { train_loss: tl, params: parameters(&net) }
}

pub fn close(a: f32, b: f32, rel: f32) -> bool {
    if a.to_bits() == b.to_bits() {
        return true;
    }
    if a.is_nan() || b.is_nan() {
        return a.is_nan() && b.is_nan();
    }
    (a - b).abs() <= rel * (1.0 + a.abs().max(b.abs()))
}

/// Do the conditioning probes lead the *reference* to the same result (same panic status,
/// losses and parameters within a tenth of the verdict's tolerances)?
fn well_conditioned(case: &Case, ref_env: &Env, forward: &Result<Trained, String>) -> bool {
    for order in [SumOrder::Reverse, SumOrder::Pairwise] {
        let (probe, _) = run_env(ref_env, |_| {
            with_sum_order(order, || match &case.second {
                Some(second) => reference_two_calls(&case.sc, second),
                None => reference_trainer(&case.sc, case.sc.epochs),
            })
        });
        match (forward, &probe) {
            (Ok(a), Ok(b)) => {
                if a.train_loss.len() != b.train_loss.len()
                    || a.train_loss.iter().zip(b.train_loss.iter()).any(|(x, y)| !close(*x, *y, 1e-6))
                    || a.params.iter().zip(b.params.iter()).any(|(x, y)| x.iter().zip(y.iter()).any(|(u, v)| !close(*u, *v, 1e-5)))
                {
                    return false;
                }
            }
            (Err(a), Err(b)) => {
                if panic_class(a) != panic_class(b) {
                    return false;
                }
            }
            _ => return false,
        }
    }
    true
}

impl Property for C04 {
    type Case = Case;

    fn id(&self) -> &'static str {
        "C04"
    }

    fn rule(&self) -> &'static str {
        "one case = generated (network, optimizer, objective, N, B, E, data[, validation data with a tolerance that never triggers]) trained by learn() under a drawn schedule and by the sequential reference trainer; distinct = hash of (network configuration, N, B, E, first datum); non-trivial = N >= 2 and the reference trainer completed (no NaN / unsupported configuration)"
    }

    fn assumptions(&self) -> Vec<String> {
        vec![
            "the reference trainer reuses the library's forward, backward, objective and optimizer step (C04 decides the orchestration, not those); the gradient sum is the harness's own code, not Tensor::add_inplace".into(),
            "agreement is judged with |d| <= 1e-4 (1+|w|) on parameters and 1e-5 relative on losses; bitwise agreement is counted separately".into(),
            "the property fixes no association of the gradient sum: before a mismatch is reported the reference trainer is re-run with the sum reversed and pairwise; if its own result moves by more than a tenth of those tolerances the case is ill-conditioned (last-bit differences are amplified) and not judged".into(),
            "E1 scheduling limits as for C05".into(),
        ]
    }

    fn runs(&self, tier: Tier) -> u64 {
        match tier {
            Tier::Quick => 50000,
            Tier::Thorough => 2000000,
        }
    }

    fn required_probes(&self) -> Vec<&'static str> {
        vec![
            "batch_usize_max","batch_gt_1", "last_group_partial", "batch_gt_n", "bitwise_equal", "stateful_optimizer", "with_validation", "dropout_configured", "second_learn_call", "scale_stratum"]
    }

    fn generate(&self, rng: &mut Rng, _tier: Tier) -> Case {
        begin_case(rng);
        let mut sc = super::c05::gen_scenario(rng, false);
        if rng.chance(0.2) {
            // validation data whose early-stopping tolerance can never trigger: training
            // must be unaffected by the per-epoch evaluation
            let v = rng.range(1, 5);
            sc.val = Some(gen_data(rng, &sc.net, v));
            sc.early_tol = 1000;
        }
        let second = if rng.chance(0.2) {
            let n = rng.range(1, 8);
            Some(Second { train: gen_data(rng, &sc.net, n), batch: rng.range(1, n + 1), epochs: rng.range(1, 2) as i32 })
        } else {
            None
        };
        let (clock, _) = draw_clock(rng);
        let env = draw_env(rng, clock, true);
        Case { sc, env, second }
    }

    fn check(&self, case: &Case, stats: &mut Stats) -> Outcome {
        scenario_probes(&case.sc, stats);
        stats.probe("stateful_optimizer", matches!(case.sc.net.optimizer, Some(OptCfg::SGDM { .. }) | Some(OptCfg::Adam { .. }) | Some(OptCfg::AdamW { .. }) | Some(OptCfg::RMSprop { .. })));
        stats.probe("bitwise_equal", false);
        stats.probe("second_learn_call", case.second.is_some());
        let mut ref_env = Env::reference(case.env.clock);
        ref_env.hash_seed = case.env.hash_seed;
        let (expected, info_ref) = run_env(&ref_env, |_| match &case.second {
            Some(second) => reference_two_calls(&case.sc, second),
            None => reference_trainer(&case.sc, case.sc.epochs),
        });
        stats.execution(&ref_env, &info_ref);
        let (got, info) = run_env(&case.env, |ctx| learn_under_test(&case.sc, case.second.as_ref(), ctx));
        stats.execution(&case.env, &info);
        stats.operations += 2;
        if let Some(d) = divergence(&case.env, &info) {
            return Outcome::HarnessError(d);
        }
        let sig = json!({
            "optimizer": case.sc.net.optimizer.as_ref().map(|o| o.kind()).unwrap_or("default"),
            "with_validation": case.sc.val.is_some(),
        });
        // every verdict below is subject to the conditioning probes
        let forward = expected.clone();
        let ill = |stats: &mut Stats| -> Option<Outcome> {
            if well_conditioned(case, &ref_env, &forward) {
                None
            } else {
                stats.probe("ill_conditioned_skipped", true);
                Some(Outcome::Degenerate("ill-conditioned: the reference trainer's own result depends on the association of the gradient sum".into()))
            }
        };
        let (expected, got) = match (expected, got) {
            (Err(e), Err(g)) => {
                return if panic_class(&e) == panic_class(&g) {
                    Outcome::Degenerate(format!("both panic: {}", panic_class(&e)))
                } else {
                    Outcome::Degenerate(format!("both panic differently: {} / {}", panic_class(&e), panic_class(&g)))
                };
            }
            (Ok(_), Err(g)) => {
                // A panic raised by the per-epoch evaluation (e.g. arg-max over a NaN
                // prediction of a diverged network) is not part of the training
                // equivalence: if learn completes once the validation data is taken away,
                // the case is outside the property.
                if case.sc.val.is_some() {
                    let mut no_val = case.sc.clone();
                    no_val.val = None;
                    let mut lenient = case.env.clone();
                    lenient.lenient = true;
                    let (again, _) = run_env(&lenient, |ctx| learn_under_test(&no_val, case.second.as_ref(), ctx));
                    if again.is_ok() {
                        return Outcome::Degenerate(format!("the per-epoch validation panics: {}", panic_class(&g)));
                    }
                }
                if let Some(o) = ill(stats) {
                    return o;
                }
                return Outcome::Violation(Violation {
                    class: "learn_panics".into(),
                    detail: format!("reference trainer completes but learn() panics: {} [{}]", panic_class(&g), g.lines().last().unwrap_or("")),
                    signature: sig,
                })
            }
            (Err(e), Ok(_)) => {
                if let Some(o) = ill(stats) {
                    return o;
                }
                return Outcome::Violation(Violation {
                    class: "reference_panics".into(),
                    detail: format!("learn() completes but the reference trainer panics: {}", panic_class(&e)),
                    signature: sig,
                })
            }
            (Ok(e), Ok(g)) => (e, g),
        };
        if expected.train_loss.len() != got.train_loss.len() {
            return Outcome::Violation(Violation {
                class: "train_loss_length".into(),
                detail: format!("{} entries, expected {}", got.train_loss.len(), expected.train_loss.len()),
                signature: sig,
            });
        }
        for (i, (e, g)) in expected.train_loss.iter().zip(got.train_loss.iter()).enumerate() {
            if !close(*e, *g, 1e-5) {
                if let Some(o) = ill(stats) {
                    return o;
                }
                return Outcome::Violation(Violation {
                    class: "train_loss_differs".into(),
                    detail: format!("epoch {}: learn reports {:e}, reference {:e}", i + 1, g, e),
                    signature: sig,
                });
            }
        }
        if expected.params.len() != got.params.len() {
            return Outcome::HarnessError("parameter tensor count differs between twins".into());
        }
        let mut bitwise = true;
        for (t, (e, g)) in expected.params.iter().zip(got.params.iter()).enumerate() {
            for (j, (a, b)) in e.iter().zip(g.iter()).enumerate() {
                if a.to_bits() != b.to_bits() {
                    bitwise = false;
                }
                if !close(*a, *b, 1e-4) {
                    if let Some(o) = ill(stats) {
                        return o;
                    }
                    return Outcome::Violation(Violation {
                        class: "parameters_differ".into(),
                        detail: format!("parameter tensor {} element {}: learn {:e}, reference {:e}", t, j, b, a),
                        signature: sig,
                    });
                }
            }
        }
        if bitwise {
            stats.probe("bitwise_equal", true);
        }
        for t in got.params.iter() {
            t.iter().for_each(|x| stats.observe(x.to_bits() as u64));
        }
        got.train_loss.iter().for_each(|x| stats.observe(x.to_bits() as u64));
        Outcome::Pass
    }

    fn pin(&self, case: &Case) -> Case {
        let (_, info) = run_env(&case.env, |ctx| learn_under_test(&case.sc, case.second.as_ref(), ctx));
        Case { sc: case.sc.clone(), env: to_replay(&case.env, &info), second: case.second.clone() }
    }

    fn shrink(&self, case: &Case) -> Vec<Case> {
        let mut out = Vec::new();
        if case.second.is_some() {
            let mut env = case.env.clone();
            env.lenient = true;
            out.push(Case { sc: case.sc.clone(), env, second: None });
        }
        for e in shrink_env(&case.env) {
            out.push(Case { sc: case.sc.clone(), env: e, second: case.second.clone() });
        }
        for sc in shrink_scenario(&case.sc) {
            let mut env = case.env.clone();
            env.lenient = true;
            out.push(Case { sc, env, second: case.second.clone() });
        }
        out
    }

    fn nontrivial_key(&self, case: &Case, _stats: &Stats) -> Option<u64> {
        if case.sc.train.len() >= 2 {
            Some(scenario_key(&case.sc))
        } else {
            None
        }
    }

    fn sample(&self, case: &Case) -> serde_json::Value {
        json!({
            "network": case.sc.net,
            "N": case.sc.train.len(),
            "B": case.sc.batch,
            "E": case.sc.epochs,
            "validation_samples": case.sc.val.as_ref().map(|d| d.len()),
            "first_input": case.sc.train.x.first(),
            "first_target": case.sc.train.y.first(),
            "second_call": case.second.as_ref().map(|s| json!({"N": s.train.len(), "B": s.batch, "E": s.epochs})),
            "env": case.env,
        })
    }
}
