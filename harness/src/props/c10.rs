//! C10 — feedback blocks keep their repeated layers weight-tied.
//!
//! Invariant, checked after creation (+ set_optimizer) and after every operation of a
//! history of 1-3 learn calls with validate/predict in between: for every position in a
//! block, the parameters of all `loops` unrolled copies are bitwise identical; and the
//! `parameters:` line of the network's Display counts every shared parameter once.

use neurons::tensor;
use serde::{Deserialize, Serialize};
use serde_json::json;

use crate::cfg::*;
use crate::core::*;
use crate::exec::*;
use crate::gen::*;
use crate::rng::Rng;
use crate::scenario::{shrink_net, targets, tensors};

pub struct C10;

#[derive(Serialize, Deserialize, Clone, Debug, PartialEq)]
pub enum Op {
    Learn {
        epochs: i32,
        with_val: bool,
        #[serde(default)]
        print: Option<i32>,
    },
    Validate,
    Predict,
    /// attach another optimizer mid-history (state is re-allocated; blocks get a copy)
    SetOptimizer(OptCfg),
}

#[derive(Serialize, Deserialize, Clone, Debug)]
pub struct Case {
    pub net: NetCfg,
    pub env: Env,
    pub train: Data,
    pub batch: usize,
    pub val: Data,
    pub ops: Vec<Op>,
}

/// Number of parameter tensors one repetition of a block contributes.
fn tensors_per_repetition(layers: &[LayerCfg]) -> usize {
    layers
        .iter()
        .map(|l| match l {
            LayerCfg::Dense { bias, .. } => 1 + *bias as usize,
            LayerCfg::Conv { filters, .. } => *filters,
            LayerCfg::Deconv { filters, .. } => *filters,
            _ => 0,
        })
        .sum()
}

#[derive(Clone, Debug)]
struct Snapshot {
    /// per network layer: its parameter tensors as bit patterns
    layers: Vec<Vec<Vec<u32>>>,
    display_parameters: Option<usize>,
}

fn snapshot(net: &neurons::network::Network) -> Snapshot {
    let layers = net
        .layers
        .iter()
        .map(|l| neurons::verif::layer_parameters(l).into_iter().map(|t| bits(&flat(t))).collect())
        .collect();
    // the parameter count the network reports about itself: the last integer on the last
    // line of its Display output that mentions "parameters" (tolerant of re-wording)
    let text = format!("{}", net);
    let display_parameters = text
        .lines()
        .rev()
        .find(|l| l.to_lowercase().contains("parameters"))
        .and_then(|l| {
            l.split(|c: char| !c.is_ascii_digit())
                .filter(|t| !t.is_empty())
                .last()
                .and_then(|t| t.parse::<usize>().ok())
        });
    Snapshot { layers, display_parameters }
}

fn execute(case: &Case, ctx: &mut Ctx) -> Vec<Snapshot> {
    ctx.op();
    let mut net = case.net.build();
    let mut snaps = vec![snapshot(&net)];
    let xs = tensors(&case.net, &case.train.x);
    let ys = targets(&case.train.y);
    let vx = tensors(&case.net, &case.val.x);
    let vy = targets(&case.val.y);
    let xr: Vec<&tensor::Tensor> = xs.iter().collect();
    let yr: Vec<&tensor::Tensor> = ys.iter().collect();
    let vxr: Vec<&tensor::Tensor> = vx.iter().collect();
    let vyr: Vec<&tensor::Tensor> = vy.iter().collect();
    for op in &case.ops {
        ctx.op();
        match op {
            Op::Learn { epochs, with_val, print } => {
                let validation = if *with_val { Some((&vxr, &vyr, 2)) } else { None };
                let _ = net.learn(&xr, &yr, validation, case.batch, *epochs, *print);
            }
            Op::Validate => {
                let _ = net.validate(&vxr, &vyr, 1e-3);
            }
            Op::Predict => {
                let _ = net.predict(&xs[0]);
            }
            Op::SetOptimizer(opt) => {
                net.set_optimizer(opt.to_lib());
            }
        }
        snaps.push(snapshot(&net));
    }
    snaps
}

impl Property for C10 {
    type Case = Case;

    fn id(&self) -> &'static str {
        "C10"
    }

    fn rule(&self) -> &'static str {
        "one case = a generated network containing at least one feedback block (dense / convolution / deconvolution layers, bias on/off, loops 1-5, accumulation in {add, subtract, multiply, mean}, skips on/off), any of the five optimizers, and a history of 1-3 learn calls (optimizer state carries over) with validate / predict in between, executed under a drawn schedule and clock script; the tie invariant is checked after creation and after every operation; distinct = hash of (network configuration, history, N, B); non-trivial = some block has loops >= 2 and at least one learn completed"
    }

    fn assumptions(&self) -> Vec<String> {
        vec![
            "`Overwrite` coupling is unimplemented in the library's update (not a supported accumulation) and is not generated".into(),
            "a history whose learn panics (NaN loss, unsupported layer combination) is counted as degenerate".into(),
        ]
    }

    fn runs(&self, tier: Tier) -> u64 {
        match tier {
            Tier::Quick => 40000,
            Tier::Thorough => 1000000,
        }
    }

    fn required_probes(&self) -> Vec<&'static str> {
        vec![
            "loops_ge_2",
            "loops_ge_4",
            "block_dense",
            "block_conv",
            "block_deconv",
            "block_with_bias",
            "block_multi_layer",
            "acc_Add",
            "acc_Subtract",
            "acc_Multiply",
            "acc_Mean",
            "two_learns",
            "optimizer_swapped_mid_history",
            "loops_ge_6",
            "steps_ge_100",
            "clock_advancing",
            "clock_frozen",
            "optimizer_SGDM",
            "optimizer_Adam",
            "optimizer_AdamW",
            "optimizer_RMSprop",
        ]
    }

    fn generate(&self, rng: &mut Rng, _tier: Tier) -> Case {
        let scale_case = begin_case(rng);
        let mut net;
        let mut tries = 0;
        loop {
            let mut opts = GenOpts::swarm(rng);
            opts.feedback = true;
            opts.max_hidden = rng.range(1, 3);
            opts.loopback = rng.chance(0.15);
            opts.stateful_optimizers = rng.chance(0.85);
            net = gen_net(rng, &opts);
            tries += 1;
            if net.layers.iter().any(|l| matches!(l, LayerCfg::Feedback { .. })) || tries > 20 {
                break;
            }
        }
        // most cases should have a block that is actually repeated, and spatial blocks
        // mostly use the couplings the library implements for kernel lists
        for l in net.layers.iter_mut() {
            if let LayerCfg::Feedback { layers, loops, acc, .. } = l {
                if *loops < 2 && rng.chance(0.85) {
                    *loops = rng.range(2, 5);
                }
                let spatial = !matches!(layers[0], LayerCfg::Dense { .. });
                if spatial && rng.chance(0.8) {
                    *acc = rng.pick(&[Acc::Add, Acc::Mean]);
                }
            }
        }
        let scale_case = scale_case && !very_wide(&net);
        let n = if scale_case { rng.range(30, 120) } else { rng.range(1, 8) };
        let train = gen_data(rng, &net, n);
        let v = rng.range(1, 4);
        let val = gen_data(rng, &net, v);
        let batch = rng.range(1, n + 1);
        let mut ops = Vec::new();
        let learns = rng.range(1, 3);
        for i in 0..learns {
            ops.push(Op::Learn {
                epochs: if scale_case { rng.range(5, 25) as i32 } else { rng.range(1, 3) as i32 },
                with_val: rng.chance(0.3),
                print: if rng.chance(0.25) { Some(rng.pick(&[1i32, 2, 5])) } else { None },
            });
            if i + 1 < learns || rng.chance(0.3) {
                match rng.below(4) {
                    0 => ops.push(Op::Validate),
                    1 => ops.push(Op::Predict),
                    2 => {
                        if let Some(o) = gen_optimizer(rng, true) {
                            ops.push(Op::SetOptimizer(o));
                        }
                    }
                    _ => {}
                }
            }
        }
        let (clock, _) = draw_clock(rng);
        let env = draw_env(rng, clock, true);
        Case { net, env, train, batch, val, ops }
    }

    fn check(&self, case: &Case, stats: &mut Stats) -> Outcome {
        let mut any_block = false;
        let mut loops2 = false;
        for l in &case.net.layers {
            if let LayerCfg::Feedback { layers, loops, acc, .. } = l {
                any_block = true;
                if *loops >= 2 {
                    loops2 = true;
                }
                stats.probe("loops_ge_2", *loops >= 2);
                stats.probe("loops_ge_4", *loops >= 4);
                stats.probe("loops_ge_6", *loops >= 6);
                stats.probe("block_dense", layers.iter().any(|l| matches!(l, LayerCfg::Dense { .. })));
                stats.probe("block_conv", layers.iter().any(|l| matches!(l, LayerCfg::Conv { .. })));
                stats.probe("block_deconv", layers.iter().any(|l| matches!(l, LayerCfg::Deconv { .. })));
                stats.probe("block_with_bias", layers.iter().any(|l| matches!(l, LayerCfg::Dense { bias: true, .. })));
                stats.probe("block_multi_layer", layers.len() >= 2);
                stats.probe(&format!("acc_{:?}", acc), true);
            }
        }
        if !any_block {
            return Outcome::Degenerate("generator produced no feedback block".into());
        }
        let steps: usize = case
            .ops
            .iter()
            .map(|o| match o {
                Op::Learn { epochs, .. } => *epochs as usize * ((case.train.len() + case.batch - 1) / case.batch.max(1)),
                _ => 0,
            })
            .sum();
        stats.probe("steps_ge_100", steps >= 100);
        stats.probe("two_learns", case.ops.iter().filter(|o| matches!(o, Op::Learn { .. })).count() >= 2);
        stats.probe("optimizer_swapped_mid_history", case.ops.iter().any(|o| matches!(o, Op::SetOptimizer(_))));
        stats.probe("clock_advancing", case.env.clock.1 != 0);
        stats.probe("clock_frozen", case.env.clock.1 == 0);
        if let Some(o) = &case.net.optimizer {
            stats.probe(&format!("optimizer_{}", o.kind()), true);
        }

        let (snaps, info) = run_env(&case.env, |ctx| execute(case, ctx));
        stats.execution(&case.env, &info);
        stats.operations += case.ops.len() as u64;
        if let Some(d) = divergence(&case.env, &info) {
            return Outcome::HarnessError(d);
        }
        let snaps = match snaps {
            Ok(s) => s,
            Err(e) => return Outcome::Degenerate(format!("history panics: {}", panic_class(&e))),
        };
        let sig = json!({
            "optimizer": case.net.optimizer.as_ref().map(|o| o.kind()).unwrap_or("default"),
        });
        for snap in snaps.iter() {
            for l in snap.layers.iter() {
                for t in l.iter() {
                    t.iter().for_each(|x| stats.observe(*x as u64));
                }
            }
        }
        for (step, snap) in snaps.iter().enumerate() {
            let when = if step == 0 {
                "after creation".to_string()
            } else {
                format!("after operation {} ({:?})", step - 1, case.ops[step - 1])
            };
            let mut expected_count = 0usize;
            for (li, l) in case.net.layers.iter().enumerate() {
                let ts = &snap.layers[li];
                match l {
                    LayerCfg::Feedback { layers, loops, .. } => {
                        let per = tensors_per_repetition(layers);
                        if ts.len() != per * loops {
                            return Outcome::Violation(Violation {
                                class: "block_structure".into(),
                                detail: format!("{}: block at layer {} holds {} parameter tensors, expected {} x {} repetitions", when, li, ts.len(), per, loops),
                                signature: sig,
                            });
                        }
                        for j in 0..per {
                            expected_count += ts[j].len();
                            for r in 1..*loops {
                                if ts[r * per + j] != ts[j] {
                                    let k = ts[j].iter().zip(ts[r * per + j].iter()).position(|(a, b)| a != b);
                                    return Outcome::Violation(Violation {
                                        class: if step == 0 { "untied_after_creation".into() } else { "untied_after_operation".into() },
                                        detail: format!(
                                            "{}: block at layer {}, parameter tensor {} differs between repetition 0 and repetition {} (first differing element {:?})",
                                            when, li, j, r, k
                                        ),
                                        signature: sig,
                                    });
                                }
                            }
                        }
                    }
                    _ => expected_count += ts.iter().map(|t| t.len()).sum::<usize>(),
                }
            }
            match snap.display_parameters {
                Some(n) if n == expected_count => {}
                None => return Outcome::HarnessError("cannot find a parameter count in the network's Display output".into()),
                other => {
                    return Outcome::Violation(Violation {
                        class: "parameter_count".into(),
                        detail: format!("{}: Display reports parameters: {:?}, counting each shared parameter once gives {}", when, other, expected_count),
                        signature: sig,
                    })
                }
            }
        }
        if loops2 {
            Outcome::Pass
        } else {
            Outcome::Degenerate("all blocks have a single repetition (trivial)".into())
        }
    }

    fn pin(&self, case: &Case) -> Case {
        let (_, info) = run_env(&case.env, |ctx| execute(case, ctx));
        let mut c = case.clone();
        c.env = to_replay(&case.env, &info);
        c
    }

    fn shrink(&self, case: &Case) -> Vec<Case> {
        let mut out = Vec::new();
        let lenient = |c: &Case| {
            let mut c = c.clone();
            c.env.lenient = true;
            c
        };
        if !case.ops.is_empty() {
            let mut c = lenient(case);
            c.ops.clear();
            out.push(c);
            for i in (0..case.ops.len()).rev() {
                let mut c = lenient(case);
                c.ops.remove(i);
                out.push(c);
            }
        }
        for (i, op) in case.ops.iter().enumerate() {
            if let Op::Learn { epochs, with_val, print } = op {
                if *epochs > 1 {
                    let mut c = lenient(case);
                    c.ops[i] = Op::Learn { epochs: 1, with_val: *with_val, print: *print };
                    out.push(c);
                }
                if *with_val {
                    let mut c = lenient(case);
                    c.ops[i] = Op::Learn { epochs: *epochs, with_val: false, print: *print };
                    out.push(c);
                }
                if print.is_some() {
                    let mut c = lenient(case);
                    c.ops[i] = Op::Learn { epochs: *epochs, with_val: *with_val, print: None };
                    out.push(c);
                }
            }
        }
        for e in shrink_env(&case.env) {
            let mut c = case.clone();
            c.env = e;
            out.push(c);
        }
        if case.train.len() > 1 {
            let mut c = lenient(case);
            c.train.x.truncate(1);
            c.train.y.truncate(1);
            c.batch = 1;
            out.push(c);
        }
        if case.batch > 1 {
            let mut c = lenient(case);
            c.batch = 1;
            out.push(c);
        }
        for n in shrink_net(&case.net) {
            if n.input == case.net.input && n.layers.iter().any(|l| matches!(l, LayerCfg::Feedback { loops, .. } if *loops >= 2)) {
                let mut c = lenient(case);
                c.net = n;
                out.push(c);
            }
        }
        out
    }

    fn nontrivial_key(&self, case: &Case, _stats: &Stats) -> Option<u64> {
        let mut h = crate::rng::hash_str(&serde_json::to_string(&case.net).unwrap_or_default());
        h = crate::rng::mix64(h ^ crate::rng::hash_str(&serde_json::to_string(&case.ops).unwrap_or_default()));
        for v in [case.train.len() as u64, case.batch as u64] {
            h = crate::rng::mix64(h ^ v);
        }
        Some(h)
    }

    fn sample(&self, case: &Case) -> serde_json::Value {
        json!({
            "network": case.net,
            "history": case.ops,
            "train_samples": case.train.len(),
            "batch": case.batch,
            "env": case.env,
        })
    }
}
