//! C12 — validate and predict_batch are faithful aggregations of predict.
//!
//! The ordering / exactly-once / mean clauses are statements about a chunked parallel map
//! whose split and completion order the simulated scheduler decides. Oracle: a sequential
//! reference computed on the harness thread outside any parallel call:
//!   p_i = predict(x_i);  predict_batch(xs)[i] == p_i bitwise, same length;
//!   predict(x) == last activation of forward(x) bitwise;
//!   validate loss == mean_i loss(p_i, y_i), accuracy == mean of the per-sample rule.

use neurons::{objective, tensor};
use serde::{Deserialize, Serialize};
use serde_json::json;

use crate::cfg::*;
use crate::core::*;
use crate::exec::*;
use crate::gen::*;
use crate::rng::Rng;
use crate::scenario::{shrink_net, tensors, targets};

pub struct C12;

#[derive(Serialize, Deserialize, Clone, Debug)]
pub struct Case {
    pub net: NetCfg,
    pub env: Env,
    pub eval: Data,
    pub tol: f32,
    pub pred: Vec<Vec<f32>>,
    /// optional history before the aggregations are compared: the property must hold in
    /// whatever state earlier calls left the network
    #[serde(default)]
    pub pre: Option<Pre>,
    /// evaluate a snapshot of the network (fresh `Network`, public fields taken over)
    #[serde(default)]
    pub snapshot: bool,
    /// `k >= 2`: `predict_batch` (it takes `&self`) is called by k parallel tasks of one pool
    /// on the shared network; every task's result must be the sequential one
    #[serde(default)]
    pub shared_calls: usize,
}

#[derive(Serialize, Deserialize, Clone, Debug)]
pub struct Pre {
    pub train: Data,
    pub val: Data,
    pub batch: usize,
    pub epochs: i32,
    /// early-stopping tolerance (None = no validation data handed to learn)
    pub tol: Option<i32>,
}

fn run_pre(net_cfg: &NetCfg, net: &mut neurons::network::Network, pre: &Pre) {
    let xs = tensors(net_cfg, &pre.train.x);
    let ys = targets(&pre.train.y);
    let vx = tensors(net_cfg, &pre.val.x);
    let vy = targets(&pre.val.y);
    let xr: Vec<&tensor::Tensor> = xs.iter().collect();
    let yr: Vec<&tensor::Tensor> = ys.iter().collect();
    let vxr: Vec<&tensor::Tensor> = vx.iter().collect();
    let vyr: Vec<&tensor::Tensor> = vy.iter().collect();
    let validation = pre.tol.map(|t| (&vxr, &vyr, t));
    let _ = net.learn(&xr, &yr, validation, pre.batch, pre.epochs, None);
}

struct Observed {
    reference: Vec<Vec<u32>>,
    forward_last: Vec<Vec<u32>>,
    batch: Vec<Vec<u32>>,
    ref_eval: Vec<Vec<f32>>,
    validate: Option<(f32, f32)>,
    flags_after: Vec<bool>,
}

fn execute(case: &Case, ctx: &mut Ctx) -> Observed {
    ctx.op();
    let mut net = case.net.build();
    if let Some(pre) = &case.pre {
        ctx.op();
        run_pre(&case.net, &mut net, pre);
    }
    if case.snapshot {
        net = case.net.snapshot_of(&net);
    }
    // sequential reference, on the calling thread
    let px = tensors(&case.net, &case.pred);
    let reference: Vec<Vec<u32>> = px.iter().map(|x| bits(&flat(&net.predict(x)))).collect();
    let forward_last: Vec<Vec<u32>> = px
        .iter()
        .take(8)
        .map(|x| {
            let (_, post, _, _) = net.forward(x);
            bits(&flat(post.last().unwrap()))
        })
        .collect();
    let ex = tensors(&case.net, &case.eval.x);
    let ey = targets(&case.eval.y);
    let ref_eval: Vec<Vec<f32>> = ex.iter().map(|x| flat(&net.predict(x))).collect();

    ctx.op();
    let pxr: Vec<&tensor::Tensor> = px.iter().collect();
    // (also for zero inputs: "for any number of inputs")
    let batch: Vec<Vec<u32>> = if case.shared_calls >= 2 {
        use rayon::prelude::*;
        let shared = &net;
        let outs: Vec<Vec<Vec<u32>>> = (0..case.shared_calls)
            .into_par_iter()
            .map(|_| shared.predict_batch(&pxr).iter().map(|t| bits(&flat(t))).collect())
            .collect();
        // report the first task whose result is not the sequential one (if any)
        let bad = outs.iter().position(|o| *o != reference).unwrap_or(0);
        outs.into_iter().nth(bad).unwrap_or_default()
    } else {
        net.predict_batch(&pxr).iter().map(|t| bits(&flat(t))).collect()
    };
    ctx.op();
    let validate = if ex.is_empty() {
        None
    } else {
        let exr: Vec<&tensor::Tensor> = ex.iter().collect();
        let eyr: Vec<&tensor::Tensor> = ey.iter().collect();
        Some(net.validate(&exr, &eyr, case.tol))
    };
    Observed { reference, forward_last, batch, ref_eval, validate, flags_after: training_flags(&net) }
}

/// Indices of the first and last maximum (they differ only on ties).
fn argmax_range(v: &[f32]) -> (usize, usize) {
    let mut first = 0;
    let mut last = 0;
    for (i, x) in v.iter().enumerate() {
        if *x > v[first] {
            first = i;
        }
        if *x >= v[last] {
            last = i;
        }
    }
    (first, last)
}

/// Per-sample accuracy as the property states it; (lo, hi) to allow for arg-max ties.
fn sample_accuracy(softmax: bool, p: &[f32], t: &[f32], tol: f32) -> (f64, f64) {
    if softmax {
        // "arg-max agreement", with arg-max as the library's public `Tensor::argmax` defines
        // it (which also fixes what happens on exact ties: whatever argmax does, on both
        // sides). Non-finite values are excluded before this point.
        if p.iter().chain(t.iter()).any(|v| v.is_nan()) {
            return (0.0, 1.0);
        }
        let a = if tensor::Tensor::single(p.to_vec()).argmax() == tensor::Tensor::single(t.to_vec()).argmax() { 1.0 } else { 0.0 };
        (a, a)
    } else {
        let hits = p.iter().zip(t.iter()).filter(|(p, t)| (**t - **p).abs() < tol).count();
        let a = hits as f64 / t.len() as f64;
        (a, a)
    }
}

impl Property for C12 {
    type Case = Case;

    fn id(&self) -> &'static str {
        "C12"
    }

    fn rule(&self) -> &'static str {
        "one case = generated network ending in a dense layer (soft-max or not), objective, tolerance, an evaluation set with targets placed at prediction +- {0, tol/2, 2 tol} (one-hot on/off the arg-max for soft-max) and a predict_batch input set, sizes biased to k*32 +- {0,1}; validate and predict_batch run under a drawn schedule and are compared with the sequential reference; distinct = hash of (network configuration, sizes, tolerance); non-trivial = at least 2 evaluation samples or 2 batch inputs"
    }

    fn assumptions(&self) -> Vec<String> {
        vec![
            "the per-sample loss is the library's objective::Function::loss on the library's predict (C12 decides the aggregation, ordering and accuracy rule, not the objective formulas); arg-max is the library's public Tensor::argmax applied to target and prediction (so tie-breaking is whatever argmax does, consistently), and the index it returns must hold a maximal value".into(),
            "the mean is compared bitwise first and otherwise within 1e-4 relative (a correct re-association is not an alarm)".into(),
            "validate with zero samples is outside the property (mean undefined) and not generated".into(),
            "E1 scheduling limits as for C05".into(),
        ]
    }

    fn runs(&self, tier: Tier) -> u64 {
        match tier {
            Tier::Quick => 60000,
            Tier::Thorough => 3000000,
        }
    }

    fn required_probes(&self) -> Vec<&'static str> {
        vec![
            "eval_gt_chunk",
            "eval_not_multiple_of_chunk",
            "batch_gt_chunk",
            "softmax_rule",
            "single_output_rule",
            "fraction_rule",
            "accuracy_strictly_between_0_and_1",
            "mean_bitwise_equal",
            "split_depth_ge_3",
            "after_training_history",
            "after_training_with_dropout",
            "eval_ge_300",
            "width_ge_8192",
            "output_activation_reset",
            "snapshot_network",
            "near_duplicate_neighbours",
            "predict_batch_from_parallel_tasks",
        ]
    }

    fn generate(&self, rng: &mut Rng, _tier: Tier) -> Case {
        begin_case(rng);
        let mut opts = GenOpts::swarm(rng);
        opts.all_objectives = true;
        let mut net = gen_net(rng, &opts);
        if !net.last_softmax() {
            net.objective = rng.pick(&ALL_OBJECTIVES);
        }
        let (clock, _) = draw_clock(rng);
        let env = draw_env(rng, clock, true);
        let tol = rng.pick(&[1e-6f32, 1e-3, 1e-1]);
        let wide = very_wide(&net);
        let size = |rng: &mut Rng| if wide { rng.range(60, 130) } else { eval_size(rng) };
        let m_eval = size(rng);
        let m_pred = if rng.chance(0.8) { size(rng) } else { 0 };
        let mut xs: Vec<Vec<f32>> = (0..m_eval).map(|_| gen_input(rng, &net)).collect();
        let mut pred: Vec<Vec<f32>> = (0..m_pred).map(|_| gen_input(rng, &net)).collect();
        // now and then runs of (near-)duplicate neighbours: a finely sampled sweep, a padded
        // batch - each input still has its own prediction, however close it is to the previous
        let near_duplicates = rng.chance(0.12);
        if near_duplicates {
            for set in [&mut xs, &mut pred] {
                for i in 1..set.len() {
                    match rng.below(4) {
                        0 => set[i] = set[i - 1].clone(),
                        1 | 2 => {
                            let d = rng.pick(&[1e-6f32, 3e-6, 1e-7]);
                            set[i] = set[i - 1].iter().map(|v| v + d * (rng.uniform(-1.0, 1.0))).collect();
                        }
                        _ => {}
                    }
                }
            }
        }
        // one case in three first trains the network (possibly stopping early), so the
        // aggregations are compared in the state an earlier call left behind
        let pre = if rng.chance(0.33) {
            let n = rng.range(1, 6);
            let train = gen_data(rng, &net, n);
            let v = rng.range(1, 4);
            let val = gen_data(rng, &net, v);
            Some(Pre {
                train,
                val,
                batch: rng.range(1, n + 1),
                epochs: rng.range(1, 5) as i32,
                tol: if rng.chance(0.7) { Some(rng.range(1, 3) as i32) } else { None },
            })
        } else {
            None
        };
        // predictions of the network in that state decide where the targets go
        let (preds, _) = run_env(&Env::reference(clock), |_| {
            let mut n = net.build();
            if let Some(pre) = &pre {
                run_pre(&net, &mut n, pre);
                for l in n.layers.iter_mut() {
                    neurons::verif::set_layer_training(l, false);
                }
            }
            tensors(&net, &xs).iter().map(|x| flat(&n.predict(x))).collect::<Vec<_>>()
        });
        let out = net.output_count().unwrap_or(1);
        let softmax = net.last_softmax();
        let probabilistic = net.objective.probabilistic();
        let mut ys = Vec::new();
        for i in 0..m_eval {
            let p: Vec<f32> = match &preds {
                Ok(p) => p[i].clone(),
                Err(_) => vec![0.5; out],
            };
            let y: Vec<f32> = if softmax {
                let (first, _) = argmax_range(&p);
                let hot = if rng.chance(0.5) { first } else { rng.below(out) };
                (0..out).map(|j| if j == hot { 1.0 } else { 0.0 }).collect()
            } else {
                p.iter()
                    .map(|p| {
                        let delta = match rng.below(4) {
                            0 => 0.0,
                            1 => tol / 2.0,
                            2 => -tol / 2.0,
                            _ => 2.0 * tol * if rng.chance(0.5) { 1.0 } else { -1.0 },
                        };
                        let t = if p.is_finite() { p + delta } else { 0.5 };
                        if probabilistic {
                            t.clamp(0.0, 1.0)
                        } else {
                            t
                        }
                    })
                    .collect()
            };
            ys.push(y);
        }
        let snapshot = rng.chance(0.08);
        let shared_calls = if !crate::gen::scale() && rng.chance(0.1) { rng.range(2, 4) } else { 0 };
        Case { net, env, eval: Data { x: xs, y: ys }, tol, pred, pre, snapshot, shared_calls }
    }

    fn check(&self, case: &Case, stats: &mut Stats) -> Outcome {
        let m = case.eval.len();
        let out_count = case.net.output_count().unwrap_or(1);
        let softmax = case.net.last_softmax();
        stats.probe("eval_gt_chunk", m > 64);
        stats.probe("eval_ge_300", m >= 300 || case.pred.len() >= 300);
        stats.probe("eval_not_multiple_of_chunk", m > 64 && m % 64 != 0);
        stats.probe("batch_gt_chunk", case.pred.len() > 64);
        stats.probe("batch_of_zero_inputs", case.pred.is_empty());
        stats.probe("softmax_rule", softmax);
        stats.probe("single_output_rule", !softmax && out_count == 1);
        stats.probe("fraction_rule", !softmax && out_count > 1);
        stats.probe("accuracy_strictly_between_0_and_1", false);
        stats.probe("mean_bitwise_equal", false);
        stats.probe("width_ge_8192", case.net.shapes().map(|v| v.iter().any(|s| s.count() >= 8192)).unwrap_or(false));
        stats.probe("output_activation_reset", case.net.built_last_act.is_some());
        stats.probe("snapshot_network", case.snapshot);
        stats.probe("near_duplicate_neighbours", case.pred.windows(2).any(|w| w[0] != w[1] && w[0].iter().zip(w[1].iter()).all(|(a, b)| (a - b).abs() < 1e-5)));
        stats.probe("predict_batch_from_parallel_tasks", case.shared_calls >= 2 && !case.pred.is_empty());
        stats.probe("after_training_history", case.pre.is_some());
        stats.probe("after_training_with_dropout", case.pre.is_some() && case.net.has_dropout());
        stats.probe(&format!("objective_{:?}", case.net.objective), true);

        let (obs, info) = run_env(&case.env, |ctx| execute(case, ctx));
        stats.execution(&case.env, &info);
        stats.operations += 3;
        if let Some(d) = divergence(&case.env, &info) {
            return Outcome::HarnessError(d);
        }
        let sig = json!({ "objective": format!("{:?}", case.net.objective), "softmax": softmax });
        let obs = match obs {
            Ok(o) => o,
            Err(e) => {
                // Which step panicked? Re-run only the sequential part.
                let (seq, _) = run_env(&Env::reference(case.env.clock), |_| {
                    let mut net = case.net.build();
                    if let Some(pre) = &case.pre {
                        run_pre(&case.net, &mut net, pre);
                    }
                    if case.snapshot {
                        net = case.net.snapshot_of(&net);
                    }
                    let mut finite = true;
                    for x in tensors(&case.net, &case.pred).iter().chain(tensors(&case.net, &case.eval.x).iter()) {
                        if flat(&net.predict(x)).iter().any(|v| !v.is_finite()) {
                            finite = false;
                        }
                    }
                    finite
                });
                return match seq {
                    Err(s) => Outcome::Degenerate(format!("sequential predict panics: {}", panic_class(&s))),
                    // a diverged network (NaN / infinite predictions) has no defined accuracy
                    // rule; what validate does with it is outside the property
                    Ok(false) => Outcome::Degenerate("non-finite predictions (diverged network)".into()),
                    Ok(true) => {
                        let class = panic_class(&e);
                        if class.contains("not supported") || class.contains("not yet implemented") || class.contains("Invalid") {
                            Outcome::Degenerate(format!("aggregate call panics (documented unsupported): {}", class))
                        } else {
                            Outcome::Violation(Violation {
                                class: "aggregate_panics".into(),
                                detail: format!("predict succeeds on every input but validate/predict_batch panics: {}", class),
                                signature: sig,
                            })
                        }
                    }
                };
            }
        };

        for v in obs.reference.iter().chain(obs.batch.iter()) {
            v.iter().for_each(|x| stats.observe(*x as u64));
        }
        if let Some((l, a)) = obs.validate {
            stats.observe(l.to_bits() as u64);
            stats.observe(a.to_bits() as u64);
        }
        if obs.ref_eval.iter().flatten().any(|v| !v.is_finite()) {
            return Outcome::Degenerate("non-finite predictions (diverged network)".into());
        }
        // predict == last activation of forward
        for (i, f) in obs.forward_last.iter().enumerate() {
            if *f != obs.reference[i] {
                return Outcome::Violation(Violation {
                    class: "predict_vs_forward".into(),
                    detail: format!("input {}: predict differs from the final activation of forward", i),
                    signature: sig,
                });
            }
        }
        // predict_batch: same length, same order, same bits
        if obs.batch.len() != obs.reference.len() {
            return Outcome::Violation(Violation {
                class: "predict_batch_length".into(),
                detail: format!("{} outputs for {} inputs", obs.batch.len(), obs.reference.len()),
                signature: sig,
            });
        }
        for (i, (b, r)) in obs.batch.iter().zip(obs.reference.iter()).enumerate() {
            if b != r {
                let elsewhere = obs.reference.iter().position(|x| x == b);
                return Outcome::Violation(Violation {
                    class: "predict_batch_value".into(),
                    detail: format!(
                        "output {} of {} is not predict(input {}){}",
                        i,
                        obs.batch.len(),
                        i,
                        match elsewhere {
                            Some(j) => format!(" (it is predict(input {}))", j),
                            None => String::new(),
                        }
                    ),
                    signature: sig,
                });
            }
        }
        // validate
        if let Some((loss, acc)) = obs.validate {
            let objective = objective::Function::create(case.net.objective.to_lib(), case.net.clamp);
            let mut sum32 = 0.0f32;
            let mut sum64 = 0.0f64;
            let mut acc_lo = 0.0f64;
            let mut acc_hi = 0.0f64;
            let mut acc32 = 0.0f32;
            for (p, y) in obs.ref_eval.iter().zip(case.eval.y.iter()) {
                let (l, _) = objective.loss(&tensor::Tensor::single(p.clone()), &tensor::Tensor::single(y.clone()));
                sum32 += l;
                sum64 += l as f64;
                if softmax && !p.iter().chain(y.iter()).any(|v| v.is_nan()) {
                    // whatever the tie rule of the library's arg-max is, the index it returns
                    // must hold a maximal value
                    for v in [p, y] {
                        let i = tensor::Tensor::single(v.to_vec()).argmax();
                        if i >= v.len() || v.iter().any(|x| *x > v[i]) {
                            return Outcome::Violation(Violation {
                                class: "argmax_not_a_maximum".into(),
                                detail: format!("Tensor::argmax returns index {} for {:?}, which does not hold the largest value", i, v),
                                signature: sig,
                            });
                        }
                    }
                }
                let (lo, hi) = sample_accuracy(softmax, p, y, case.tol);
                acc_lo += lo;
                acc_hi += hi;
                acc32 += lo as f32;
            }
            let n = m as f64;
            let mean32 = sum32 / m as f32;
            let mean64 = sum64 / n;
            if mean32.to_bits() == loss.to_bits() {
                stats.probe("mean_bitwise_equal", true);
            } else if !(mean64.is_nan() && loss.is_nan())
                && !(((loss as f64) - mean64).abs() <= 1e-4 * (1.0 + mean64.abs()))
                && !(mean64.is_infinite() && loss as f64 == mean64)
            {
                return Outcome::Violation(Violation {
                    class: "validate_loss".into(),
                    detail: format!("validate reports loss {:e}; mean over {} samples of loss(predict(x), y) is {:e}", loss, m, mean64),
                    signature: sig,
                });
            }
            let (lo, hi) = (acc_lo / n, acc_hi / n);
            if lo > 0.0 && hi < 1.0 {
                stats.probe("accuracy_strictly_between_0_and_1", true);
            }
            let a = acc as f64;
            let exact32 = (acc32 / m as f32).to_bits() == acc.to_bits();
            if !exact32 && !(a >= lo - 1e-5 && a <= hi + 1e-5) {
                return Outcome::Violation(Violation {
                    class: "validate_accuracy".into(),
                    detail: format!("validate reports accuracy {:e}; the per-sample rule averages to [{:e}, {:e}] over {} samples (tol {:e})", acc, lo, hi, m, case.tol),
                    signature: sig,
                });
            }
        }
        if obs.flags_after.iter().any(|f| *f) {
            return Outcome::Violation(Violation {
                class: "flags_after_validate".into(),
                detail: "a layer is left in training mode after validate/predict_batch on an idle network".into(),
                signature: sig,
            });
        }
        Outcome::Pass
    }

    fn pin(&self, case: &Case) -> Case {
        let (_, info) = run_env(&case.env, |ctx| execute(case, ctx));
        let mut c = case.clone();
        c.env = to_replay(&case.env, &info);
        c
    }

    fn shrink(&self, case: &Case) -> Vec<Case> {
        let mut out = Vec::new();
        let lenient = |c: &Case| {
            let mut c = c.clone();
            c.env.lenient = true;
            c
        };
        if case.snapshot {
            let mut c = lenient(case);
            c.snapshot = false;
            out.push(c);
        }
        if case.shared_calls >= 2 {
            let mut c = lenient(case);
            c.shared_calls = 0;
            out.push(c);
        }
        if case.pre.is_some() {
            let mut c = lenient(case);
            c.pre = None;
            out.push(c);
            let mut c = lenient(case);
            if let Some(p) = c.pre.as_mut() {
                if p.epochs > 1 {
                    p.epochs -= 1;
                    out.push(c);
                }
            }
        }
        if !case.pred.is_empty() && !case.eval.x.is_empty() {
            let mut c = lenient(case);
            c.pred.clear();
            out.push(c);
            let mut c = lenient(case);
            c.eval = Data::default();
            out.push(c);
        }
        for keep in [case.pred.len() / 2, case.pred.len().saturating_sub(1)] {
            if keep >= 1 && keep < case.pred.len() {
                let mut c = lenient(case);
                c.pred.truncate(keep);
                out.push(c);
                let mut c = lenient(case);
                c.pred = case.pred[case.pred.len() - keep..].to_vec();
                out.push(c);
            }
        }
        for keep in [case.eval.len() / 2, case.eval.len().saturating_sub(1)] {
            if keep >= 1 && keep < case.eval.len() {
                let mut c = lenient(case);
                c.eval.x.truncate(keep);
                c.eval.y.truncate(keep);
                out.push(c);
                let mut c = lenient(case);
                let s = case.eval.len() - keep;
                c.eval.x = case.eval.x[s..].to_vec();
                c.eval.y = case.eval.y[s..].to_vec();
                out.push(c);
            }
        }
        for e in shrink_env(&case.env) {
            let mut c = case.clone();
            c.env = e;
            out.push(c);
        }
        for n in shrink_net(&case.net) {
            if n.input == case.net.input && n.objective == case.net.objective {
                let mut c = lenient(case);
                c.net = n;
                out.push(c);
            }
        }
        out
    }

    fn nontrivial_key(&self, case: &Case, _stats: &Stats) -> Option<u64> {
        if case.eval.len() >= 2 || case.pred.len() >= 2 {
            let mut h = crate::rng::hash_str(&serde_json::to_string(&case.net).unwrap_or_default());
            for v in [case.eval.len() as u64, case.pred.len() as u64, case.tol.to_bits() as u64] {
                h = crate::rng::mix64(h ^ v);
            }
            Some(h)
        } else {
            None
        }
    }

    fn sample(&self, case: &Case) -> serde_json::Value {
        json!({
            "network": case.net,
            "evaluation_samples": case.eval.len(),
            "predict_batch_inputs": case.pred.len(),
            "tolerance": case.tol,
            "first_eval_input": case.eval.x.first(),
            "first_eval_target": case.eval.y.first(),
            "pre_history": case.pre.as_ref().map(|p| json!({"train_samples": p.train.len(), "batch": p.batch, "epochs": p.epochs, "early_stop_tolerance": p.tol})),
            "env": case.env,
        })
    }
}
