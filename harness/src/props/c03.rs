//! C03 — optimizer steps follow the documented update rules for every history.
//!
//! Surface: the public API `X::create(..) -> Optimizer::validate(vectors) ->
//! Optimizer::update(layer, filter, bias, stepnr, values, gradients)`. State: the
//! per-(layer, filter, bias) moment tensors. Workload: K parameter slots, each with its
//! own update stream (gradient pattern, step-number sequence); the run's PRNG decides the
//! interleaving of the K streams. Oracles after every update:
//!  (a) reference model = the doc-comment equations applied element-wise in f32 with its
//!      own per-slot state (an f64 shadow marks ill-conditioned steps, where only
//!      finiteness is compared);
//!  (b) rank independence: the same numbers stored as Single, Double and Triple give
//!      bitwise identical trajectories;
//!  (c) slot isolation: each stream run alone on a fresh optimizer gives a bitwise
//!      identical trajectory;
//!  (d) finiteness whenever the exact (f64) trajectory stays of moderate magnitude.

use neurons::{optimizer, tensor};
use serde::{Deserialize, Serialize};
use serde_json::json;

use crate::cfg::OptCfg;
use crate::core::*;
use crate::exec::*;
use crate::rng::{mix64, Rng};

pub struct C03;

#[derive(Serialize, Deserialize, Clone, Copy, Debug, PartialEq)]
pub enum Pattern {
    Random,
    Constant,
    Sparse,
    SignFlip,
    Tiny,
    Large,
    /// subnormal magnitudes (1e-40 .. 1e-38), with exact and negative zeros mixed in
    Denormal,
}

#[derive(Serialize, Deserialize, Clone, Copy, Debug, PartialEq)]
pub enum StepSeq {
    /// 1, 2, 3, ...
    Counting,
    /// 1,1,..,2,2,.. (k updates per epoch)
    Epochs(u32),
    Constant(i32),
}

#[derive(Serialize, Deserialize, Clone, Debug, PartialEq)]
pub struct Slot {
    pub layer: usize,
    pub filter: usize,
    pub bias: bool,
    /// the slot's numbers are stored as Single(a*b*c), Double(a, b*c) and Triple(a, b, c)
    pub dims: (usize, usize, usize),
    pub init: Vec<f32>,
    pub pattern: Pattern,
    pub grad_seed: u64,
    pub grad_scale: f32,
    pub steps: StepSeq,
    pub updates: usize,
}

#[derive(Serialize, Deserialize, Clone, Debug)]
pub struct Case {
    pub opt: OptCfg,
    pub slots: Vec<Slot>,
    /// which slot issues its next update, in order (the interleaving)
    pub order: Vec<u16>,
    /// network-level variant: the slots are the parameter tensors of a whole network and
    /// the updates go through `Network::update` / `Feedback::update` (slot addressing)
    #[serde(default)]
    pub net: Option<super::c03_net::NetHistory>,
    /// k > 0: after every k-th update the optimizer is replaced by its `clone()` (checkpoint /
    /// resume): a clone carries the state, so the history goes on as if nothing had happened
    #[serde(default)]
    pub clone_every: usize,
}

impl Slot {
    fn len(&self) -> usize {
        self.dims.0 * self.dims.1 * self.dims.2
    }
    pub fn gradient(&self, t: usize, i: usize) -> f32 {
        let h = mix64(self.grad_seed ^ mix64(t as u64 * 1_000_003 + i as u64));
        let u = (h >> 40) as f32 / (1u64 << 24) as f32; // [0,1)
        let s = self.grad_scale;
        match self.pattern {
            Pattern::Random => (2.0 * u - 1.0) * s,
            Pattern::Constant => {
                let h0 = mix64(self.grad_seed ^ mix64(i as u64));
                ((h0 >> 40) as f32 / (1u64 << 24) as f32 * 2.0 - 1.0) * s
            }
            Pattern::Sparse => {
                if h % 5 == 0 {
                    (2.0 * u - 1.0) * s
                } else {
                    0.0
                }
            }
            Pattern::SignFlip => {
                let h0 = mix64(self.grad_seed ^ mix64(i as u64));
                let m = ((h0 >> 40) as f32 / (1u64 << 24) as f32 + 0.1) * s;
                if t % 2 == 0 {
                    m
                } else {
                    -m
                }
            }
            Pattern::Tiny => (2.0 * u - 1.0) * 1e-6,
            Pattern::Denormal => match h % 7 {
                0 => 0.0,
                1 => -0.0,
                _ => (2.0 * u - 1.0) * 1e-38,
            },
            Pattern::Large => (2.0 * u - 1.0) * 1e3,
        }
    }
    pub fn stepnr(&self, t: usize) -> i32 {
        match self.steps {
            StepSeq::Counting => t as i32 + 1,
            StepSeq::Epochs(k) => (t as u32 / k.max(1)) as i32 + 1,
            StepSeq::Constant(c) => c.max(1),
        }
    }
}

fn make_tensor(rank: u8, dims: (usize, usize, usize), values: &[f32]) -> tensor::Tensor {
    let (_, b, c) = dims;
    match rank {
        1 => tensor::Tensor::single(values.to_vec()),
        2 => tensor::Tensor::double(values.chunks(b * c).map(|r| r.to_vec()).collect()),
        _ => tensor::Tensor::triple(
            values.chunks(b * c).map(|m| m.chunks(c).map(|r| r.to_vec()).collect()).collect(),
        ),
    }
}

fn layout(slots: &[Slot], rank: u8) -> Vec<Vec<Vec<tensor::Tensor>>> {
    let layers = slots.iter().map(|s| s.layer).max().unwrap_or(0) + 1;
    let mut v: Vec<Vec<Vec<tensor::Tensor>>> = Vec::new();
    for l in 0..layers {
        let filters = slots.iter().filter(|s| s.layer == l).map(|s| s.filter).max().unwrap_or(0) + 1;
        let mut fl = Vec::new();
        for f in 0..filters {
            let mut pair = Vec::new();
            for b in [false, true] {
                match slots.iter().find(|s| s.layer == l && s.filter == f && s.bias == b) {
                    Some(s) => pair.push(make_tensor(rank, s.dims, &vec![0.0; s.len()])),
                    None => pair.push(tensor::Tensor::single(vec![])),
                }
            }
            fl.push(pair);
        }
        v.push(fl);
    }
    v
}

/// Drive the library: returns, per slot, the values after each of its updates.
fn run_library(opt: &OptCfg, slots: &[Slot], rank: u8, order: &[u16], only: Option<usize>, clone_every: usize) -> Vec<Vec<Vec<f32>>> {
    let mut o: optimizer::Optimizer = opt.to_lib();
    o.validate(layout(slots, rank));
    let mut values: Vec<tensor::Tensor> = slots.iter().map(|s| make_tensor(rank, s.dims, &s.init)).collect();
    let mut done = vec![0usize; slots.len()];
    let mut out: Vec<Vec<Vec<f32>>> = vec![Vec::new(); slots.len()];
    let mut steps_taken = 0usize;
    for k in order {
        let k = *k as usize;
        let s = &slots[k];
        let t = done[k];
        if t >= s.updates {
            continue;
        }
        done[k] += 1;
        if let Some(only) = only {
            if only != k {
                continue;
            }
        }
        let g: Vec<f32> = (0..s.len()).map(|i| s.gradient(t, i)).collect();
        let mut gt = make_tensor(rank, s.dims, &g);
        o.update(s.layer, s.filter, s.bias, s.stepnr(t), &mut values[k], &mut gt);
        out[k].push(crate::cfg::flat(&values[k]));
        steps_taken += 1;
        if clone_every > 0 && steps_taken % clone_every == 0 {
            o = o.clone();
        }
    }
    out
}

// ---------------------------------------------------------------------------------------
// reference model: the documented equations, generic over f32 / f64
// ---------------------------------------------------------------------------------------

pub(crate) trait Real: Copy {
    fn from32(x: f32) -> Self;
    fn add(self, o: Self) -> Self;
    fn sub(self, o: Self) -> Self;
    fn mul(self, o: Self) -> Self;
    fn div(self, o: Self) -> Self;
    fn sqrt(self) -> Self;
    fn powi(self, n: i32) -> Self;
    fn max0(self) -> Self;
}

impl Real for f32 {
    fn from32(x: f32) -> f32 {
        x
    }
    fn add(self, o: f32) -> f32 {
        self + o
    }
    fn sub(self, o: f32) -> f32 {
        self - o
    }
    fn mul(self, o: f32) -> f32 {
        self * o
    }
    fn div(self, o: f32) -> f32 {
        self / o
    }
    fn sqrt(self) -> f32 {
        f32::sqrt(self)
    }
    fn powi(self, n: i32) -> f32 {
        f32::powi(self, n)
    }
    fn max0(self) -> f32 {
        // literal documented rule by default; the finiteness witness clamps (see below)
        if CLAMP32.with(|c| c.get()) {
            self.max(0.0)
        } else {
            self
        }
    }
}

thread_local! {
    static CLAMP32: std::cell::Cell<bool> = std::cell::Cell::new(false);
}

/// One step of the documented rule in single precision with the variance clamped at its
/// exact lower bound 0 (what a careful f32 implementation does).
fn reference_step_clamped(opt: &OptCfg, st: &mut RefState<f32>, g: f32, stepnr: i32) {
    CLAMP32.with(|c| c.set(true));
    reference_step(opt, st, g, stepnr);
    CLAMP32.with(|c| c.set(false));
}

impl Real for f64 {
    fn from32(x: f32) -> f64 {
        x as f64
    }
    fn add(self, o: f64) -> f64 {
        self + o
    }
    fn sub(self, o: f64) -> f64 {
        self - o
    }
    fn mul(self, o: f64) -> f64 {
        self * o
    }
    fn div(self, o: f64) -> f64 {
        self / o
    }
    fn sqrt(self) -> f64 {
        f64::sqrt(self)
    }
    fn powi(self, n: i32) -> f64 {
        f64::powi(self, n)
    }
    /// the exact quantity (a variance) is non-negative; the shadow keeps it so
    fn max0(self) -> f64 {
        self.max(0.0)
    }
}

/// Hyper-parameters after the substitution `Optimizer::validate` performs for zeros.
pub(crate) fn substituted(opt: &OptCfg) -> OptCfg {
    let nz = |x: f32, d: f32| if x == 0.0 { d } else { x };
    match opt.clone() {
        OptCfg::SGD { lr, decay } => OptCfg::SGD { lr: nz(lr, 0.1), decay },
        OptCfg::SGDM { lr, momentum, dampening, decay } => {
            OptCfg::SGDM { lr: nz(lr, 0.1), momentum: nz(momentum, 0.9), dampening, decay }
        }
        OptCfg::Adam { lr, beta1, beta2, epsilon, decay } => OptCfg::Adam {
            lr: nz(lr, 0.001),
            beta1: nz(beta1, 0.9),
            beta2: nz(beta2, 0.999),
            epsilon: nz(epsilon, 1e-8),
            decay,
        },
        OptCfg::AdamW { lr, beta1, beta2, epsilon, decay } => OptCfg::AdamW {
            lr: nz(lr, 0.001),
            beta1: nz(beta1, 0.9),
            beta2: nz(beta2, 0.999),
            epsilon: nz(epsilon, 1e-8),
            decay,
        },
        OptCfg::RMSprop { lr, alpha, epsilon, decay, momentum, centered } => OptCfg::RMSprop {
            lr: nz(lr, 0.01),
            alpha: nz(alpha, 0.99),
            epsilon: nz(epsilon, 1e-8),
            decay,
            momentum,
            centered,
        },
    }
}

#[derive(Clone)]
pub(crate) struct RefState<R: Real> {
    pub w: R,
    pub a: R, // velocity
    pub b: R, // momentum / gradient average
    pub c: R, // buffer
}

pub(crate) fn reference_step<R: Real>(opt: &OptCfg, st: &mut RefState<R>, g32: f32, stepnr: i32) {
    let r = R::from32;
    let one = r(1.0);
    let mut g = r(g32);
    match opt {
        OptCfg::SGD { lr, decay } => {
            if let Some(d) = decay {
                g = g.add(r(*d).mul(st.w));
            }
            st.w = st.w.sub(r(*lr).mul(g));
        }
        OptCfg::SGDM { lr, momentum, dampening, decay } => {
            if let Some(d) = decay {
                g = g.add(r(*d).mul(st.w));
            }
            if stepnr > 1 {
                st.a = r(*momentum).mul(st.a).add(one.sub(r(*dampening)).mul(g));
                g = st.a;
            } else {
                st.a = g;
            }
            st.w = st.w.sub(r(*lr).mul(g));
        }
        OptCfg::Adam { lr, beta1, beta2, epsilon, decay } => {
            if let Some(d) = decay {
                g = g.add(r(*d).mul(st.w));
            }
            st.b = r(*beta1).mul(st.b).add(one.sub(r(*beta1)).mul(g));
            st.a = r(*beta2).mul(st.a).add(one.sub(r(*beta2)).mul(g.mul(g)));
            let m = st.b.div(one.sub(r(*beta1).powi(stepnr)));
            let v = st.a.div(one.sub(r(*beta2).powi(stepnr)));
            st.w = st.w.sub(r(*lr).mul(m).div(v.sqrt().add(r(*epsilon))));
        }
        OptCfg::AdamW { lr, beta1, beta2, epsilon, decay } => {
            st.w = st.w.sub(r(*lr).mul(r(*decay)).mul(st.w));
            st.b = r(*beta1).mul(st.b).add(one.sub(r(*beta1)).mul(g));
            st.a = r(*beta2).mul(st.a).add(one.sub(r(*beta2)).mul(g.mul(g)));
            let m = st.b.div(one.sub(r(*beta1).powi(stepnr)));
            let v = st.a.div(one.sub(r(*beta2).powi(stepnr)));
            st.w = st.w.sub(r(*lr).mul(m).div(v.sqrt().add(r(*epsilon))));
        }
        OptCfg::RMSprop { lr, alpha, epsilon, decay, momentum, centered } => {
            if let Some(d) = decay {
                g = g.add(r(*d).mul(st.w));
            }
            st.a = r(*alpha).mul(st.a).add(one.sub(r(*alpha)).mul(g.mul(g)));
            let mut v = st.a;
            if *centered {
                st.b = r(*alpha).mul(st.b).add(one.sub(r(*alpha)).mul(g));
                v = v.sub(st.b.mul(st.b)).max0();
            }
            match momentum {
                Some(m) if *m > 0.0 => {
                    st.c = r(*m).mul(st.c).add(g.div(v.sqrt().add(r(*epsilon))));
                    st.w = st.w.sub(r(*lr).mul(st.c));
                }
                _ => {
                    st.w = st.w.sub(r(*lr).mul(g).div(v.sqrt().add(r(*epsilon))));
                }
            }
        }
    }
}

pub(crate) fn draw_optimizer(rng: &mut Rng) -> OptCfg {
    let decay = |rng: &mut Rng| if rng.chance(0.5) { Some(rng.pick(&[0.001f32, 0.01, 0.1])) } else { None };
    // tiny but non-zero (all below f32::EPSILON): legal values that must be used as given,
    // not mistaken for the exact 0.0 that means "use the default"
    const TINY: [f32; 4] = [1e-7, 3e-8, 1e-10, 1e-30];
    let lr = |rng: &mut Rng, zero_ok: bool| {
        if zero_ok && rng.chance(0.08) {
            0.0
        } else if rng.chance(0.04) {
            rng.pick(&TINY)
        } else {
            rng.pick(&[0.001f32, 0.01, 0.05, 0.1, 0.5, 1.0])
        }
    };
    let or_tiny = |rng: &mut Rng, v: f32| if rng.chance(0.05) { rng.pick(&TINY) } else { v };
    // (not below 1e-10: when single precision cancels a centred variance to exactly 0 the
    // step is g / epsilon, and with 1e-30 that alone overflows - inherent, not a defect)
    const EPS: [f32; 7] = [0.0, 1e-8, 1e-8, 1e-6, 1e-3, 1e-7, 1e-10];
    match rng.below(5) {
        0 => OptCfg::SGD { lr: lr(rng, true), decay: decay(rng) },
        1 => OptCfg::SGDM {
            lr: lr(rng, true),
            momentum: { let v = rng.pick(&[0.0f32, 0.5, 0.9, 0.99, 0.999]); or_tiny(rng, v) },
            dampening: rng.pick(&[0.0f32, 0.0, 0.1, 0.5, 0.9, 1.0]),
            decay: decay(rng),
        },
        2 => OptCfg::Adam {
            lr: lr(rng, true),
            beta1: { let v = rng.pick(&[0.0f32, 0.5, 0.9, 0.95, 0.999]); or_tiny(rng, v) },
            // (no tiny beta2 / alpha: the step becomes m / |g|, a map with a pole at g = 0 that
            // is chaotic under decay - every evaluation order has its own trajectory)
            beta2: rng.pick(&[0.0f32, 0.9, 0.99, 0.999, 0.9999]),
            epsilon: rng.pick(&EPS),
            decay: decay(rng),
        },
        3 => OptCfg::AdamW {
            lr: lr(rng, true),
            beta1: { let v = rng.pick(&[0.0f32, 0.5, 0.9, 0.95]); or_tiny(rng, v) },
            beta2: rng.pick(&[0.0f32, 0.9, 0.99, 0.999]),
            epsilon: rng.pick(&EPS),
            decay: rng.pick(&[0.0f32, 0.01, 0.1, 1e-7]),
        },
        _ => {
            let centered = rng.chance(0.5);
            let alpha = rng.pick(&[0.0f32, 0.5, 0.9, 0.99, 0.999]);
            OptCfg::RMSprop {
                lr: lr(rng, true),
                // no tiny alpha: centred, the variance alpha (1 - alpha) g^2 is below one ulp of
                // g^2 (no single-precision evaluation can represent it); not centred, the step
                // is g / |g| (see beta2)
                alpha,
                // (centred: not below 1e-8 - see the finiteness oracle)
                epsilon: if centered { rng.pick(&[0.0f32, 1e-8, 1e-8, 1e-6, 1e-3, 1e-7]) } else { rng.pick(&EPS) },
                decay: decay(rng),
                momentum: if rng.chance(0.5) { Some(rng.pick(&[0.5f32, 0.9])) } else { None },
                centered,
            }
        }
    }
}

const MODERATE: f64 = 1e30;

impl Property for C03 {
    type Case = Case;

    fn id(&self) -> &'static str {
        "C03"
    }

    fn rule(&self) -> &'static str {
        "one case = an optimizer (kind + hyper-parameters incl. zeros that trigger default substitution, every option combination), 1-6 parameter slots at drawn (layer, filter, bias) addresses with drawn shapes, one update stream per slot (gradient pattern in {random, constant, sparse, sign-flipping, tiny, large}, step-number sequence in {1,2,3.., epoch-style, constant}, 1-50 updates, or up to 5000 for long histories) and a drawn interleaving of the streams; every stream is run as Single, Double and Triple, alone and interleaved, and against the f32/f64 reference; distinct = hash of the whole case; non-trivial = at least 2 updates in total"
    }

    fn assumptions(&self) -> Vec<String> {
        vec![
            "the reference applies the doc-comment equations of each `update` element-wise, with the zero-hyper-parameter substitution exactly as Optimizer::validate performs it (the defaults named in the `create` doc comments differ from those; the property statement does not cover defaults)".into(),
            "values are compared within (1e-4 + 5e-7 t)(1+|w|) after t updates; an element whose f32 and f64 reference trajectories drift apart by more than (5e-6 + 1e-7 t)(1+|w|), or whose f32 reference moves by more than (1e-6 + 5e-8 t)(1+|w|) when the start value is one ulp off or every gradient two ulps larger (a perturbation of 1e-7 amplified sixteen-fold), or whose single step is locally that sensitive, or - Adam / RMSprop with coupled decay - whose effective gradient g + decay w has cancelled to 1e-4 of its terms, is ill-conditioned from then on and only checked for finiteness (counted)".into(),
            "finiteness is required whenever the f64 shadow trajectory and the f32 evaluation of the documented rule (variance clamped at its exact lower bound 0) both stay below 1e30 in magnitude".into(),
            "no parallel runtime is involved in this property; the interleaving of slot streams is drawn by the run's PRNG and stored in the case".into(),
        ]
    }

    fn components(&self) -> serde_json::Value {
        json!({
            "real": ["/repo/src/optimizer.rs through its public API (create / validate / update)", "network-level variant: Network::update, Feedback::update, forward/backward of /repo/src"],
            "stub": ["SystemTime in Tensor::random (simulated clock; network-level variant only)", "HashMap hasher (seeded)"],
            "not_involved": ["rayon / rayon-core: no parallel call is made by this property's workload; the simulated nondeterminism is the seeded interleaving of per-slot update streams"]
        })
    }

    fn runs(&self, tier: Tier) -> u64 {
        match tier {
            Tier::Quick => 100000,
            Tier::Thorough => 6000000,
        }
    }

    fn required_probes(&self) -> Vec<&'static str> {
        vec![
            "optimizer_SGD",
            "optimizer_SGDM",
            "optimizer_Adam",
            "optimizer_AdamW",
            "optimizer_RMSprop",
            "rmsprop_centered",
            "rmsprop_momentum",
            "default_substitution",
            "slots_ge_3",
            "interleaved",
            "long_history",
            "long_constant_gradient",
            "same_layer_two_slots",
            "bias_slot",
            "filter_slot_ge_1",
            "network_level",
            "network_level_conv_filters_ge_2",
            "network_level_feedback",
            "network_level_stateful",
            "network_level_step_via_learn",
            "network_level_optimizer_reattached",
            "slot_ge_2pow18_elements",
            "tiny_nonzero_hyperparameter",
            "optimizer_cloned_mid_history",
        ]
    }

    fn generate(&self, rng: &mut Rng, tier: Tier) -> Case {
        let scale_case = crate::gen::begin_case(rng);
        let opt = draw_optimizer(rng);
        if rng.chance(0.25) {
            let net = super::c03_net::generate(rng, &opt);
            return Case { opt, slots: Vec::new(), order: Vec::new(), net: Some(net), clone_every: 0 };
        }
        let long = rng.chance(match tier {
            Tier::Quick => 0.04,
            Tier::Thorough => 0.04,
        });
        // now and then one parameter with 2^18 and more elements (a 512 x 512 matrix, the same
        // numbers as a vector and as a kernel stack): size-keyed fast paths
        let huge = scale_case && !long && rng.chance(0.15);
        let k = if huge { 1 } else if long { rng.range(1, 2) } else { rng.range(1, 6) };
        let mut slots: Vec<Slot> = Vec::new();
        while slots.len() < k {
            let layer = rng.below(3);
            let filter = rng.below(3);
            let bias = rng.chance(0.4);
            if slots.iter().any(|s| s.layer == layer && s.filter == filter && s.bias == bias) {
                continue;
            }
            let dims = if huge {
                (512, rng.pick(&[8usize, 16]), rng.pick(&[64usize, 65]))
            } else if scale_case { (rng.range(2, 6), rng.range(2, 6), rng.range(3, 9)) } else { (rng.range(1, 3), rng.range(1, 2), rng.range(1, 3)) };
            let n = dims.0 * dims.1 * dims.2;
            let pattern = if long {
                rng.pick(&[Pattern::Constant, Pattern::Constant, Pattern::SignFlip, Pattern::Random, Pattern::Sparse])
            } else {
                rng.pick(&[Pattern::Random, Pattern::Random, Pattern::Constant, Pattern::Sparse, Pattern::Sparse, Pattern::SignFlip, Pattern::Tiny, Pattern::Large, Pattern::Denormal])
            };
            slots.push(Slot {
                layer,
                filter,
                bias,
                dims,
                init: (0..n).map(|_| rng.uniform(-1.0, 1.0)).collect(),
                pattern,
                grad_seed: rng.next_u64(),
                grad_scale: rng.pick(&[0.1f32, 1.0, 1.0, 3.0]),
                steps: match rng.below(4) {
                    0 => StepSeq::Epochs(rng.range(1, 5) as u32),
                    1 => StepSeq::Constant(rng.range(1, 3) as i32),
                    _ => StepSeq::Counting,
                },
                updates: if huge { rng.range(1, 4) } else if long { rng.range(1000, 5000) } else { rng.range(1, 50) },
            });
        }
        // interleaving: repeatedly pick a slot that still has updates left
        let mut left: Vec<usize> = slots.iter().map(|s| s.updates).collect();
        let mut order = Vec::new();
        let style = rng.below(3);
        while left.iter().any(|l| *l > 0) {
            let alive: Vec<usize> = (0..slots.len()).filter(|i| left[*i] > 0).collect();
            let pick = match style {
                0 => alive[rng.below(alive.len())],
                1 => alive[0],                        // one stream after the other
                _ => alive[order.len() % alive.len()], // round robin
            };
            left[pick] -= 1;
            order.push(pick as u16);
        }
        let clone_every = if !huge && rng.chance(0.1) { rng.pick(&[1usize, 2, 5]) } else { 0 };
        Case { opt, slots, order, net: None, clone_every }
    }

    fn check(&self, case: &Case, stats: &mut Stats) -> Outcome {
        for p in self.required_probes() {
            stats.probe(p, false);
        }
        if let Some(h) = &case.net {
            return super::c03_net::check(&case.opt, h, stats);
        }
        let opt = &case.opt;
        let total: usize = case.slots.iter().map(|s| s.updates).sum();
        stats.probe(&format!("optimizer_{}", opt.kind()), true);
        stats.probe("rmsprop_centered", matches!(opt, OptCfg::RMSprop { centered: true, .. }));
        stats.probe("rmsprop_momentum", matches!(opt, OptCfg::RMSprop { momentum: Some(_), .. }));
        stats.probe("default_substitution", substituted(opt) != *opt);
        stats.probe("tiny_nonzero_hyperparameter", {
            let t = |v: f32| v > 0.0 && v < f32::EPSILON;
            match opt {
                OptCfg::SGD { lr, .. } => t(*lr),
                OptCfg::SGDM { lr, momentum, .. } => t(*lr) || t(*momentum),
                OptCfg::Adam { lr, beta1, beta2, epsilon, .. } | OptCfg::AdamW { lr, beta1, beta2, epsilon, .. } => t(*lr) || t(*beta1) || t(*beta2) || (t(*epsilon) && *epsilon != 1e-8),
                OptCfg::RMSprop { lr, alpha, epsilon, .. } => t(*lr) || t(*alpha) || (t(*epsilon) && *epsilon != 1e-8),
            }
        });
        stats.probe("slots_ge_3", case.slots.len() >= 3);
        stats.probe("optimizer_cloned_mid_history", case.clone_every > 0 && total > case.clone_every);
        stats.probe("slot_ge_2pow18_elements", case.slots.iter().any(|s| s.len() >= 1 << 18));
        stats.probe("interleaved", case.order.windows(2).filter(|w| w[0] != w[1]).count() >= 2);
        stats.probe("long_history", case.slots.iter().any(|s| s.updates >= 1000));
        stats.probe("long_constant_gradient", case.slots.iter().any(|s| s.updates >= 1000 && s.pattern == Pattern::Constant));
        let mut same_layer = false;
        for (i, a) in case.slots.iter().enumerate() {
            for b in case.slots.iter().skip(i + 1) {
                if a.layer == b.layer {
                    same_layer = true;
                }
            }
        }
        stats.probe("same_layer_two_slots", same_layer);
        stats.probe("bias_slot", case.slots.iter().any(|s| s.bias));
        stats.probe("filter_slot_ge_1", case.slots.iter().any(|s| s.filter >= 1));
        stats.probe("ill_conditioned_elements", false);
        stats.operations += 3 * total as u64;
        stats.executions += 3 + case.slots.len() as u64;

        let sig = json!({
            "optimizer": opt.kind(),
            "centered": matches!(opt, OptCfg::RMSprop { centered: true, .. }),
        });
        let env = Env::reference((1, 1));
        // ---- the library, three ranks, interleaved -------------------------------------
        let mut by_rank: Vec<Vec<Vec<Vec<f32>>>> = Vec::new();
        for rank in [1u8, 2, 3] {
            let (r, _) = run_env(&env, |_| run_library(opt, &case.slots, rank, &case.order, None, case.clone_every));
            match r {
                Ok(t) => by_rank.push(t),
                Err(e) => {
                    return Outcome::Violation(Violation {
                        class: "update_panics".into(),
                        detail: format!("rank {}: {}", rank, panic_class(&e)),
                        signature: sig,
                    })
                }
            }
        }
        for slot in by_rank[2].iter() {
            if let Some(last) = slot.last() {
                last.iter().for_each(|x| stats.observe(x.to_bits() as u64));
            }
        }
        // (b) rank independence
        for (ri, name) in [(1usize, "Double"), (2, "Triple")] {
            for (k, (a, b)) in by_rank[0].iter().zip(by_rank[ri].iter()).enumerate() {
                for (t, (x, y)) in a.iter().zip(b.iter()).enumerate() {
                    if crate::cfg::bits(x) != crate::cfg::bits(y) {
                        return Outcome::Violation(Violation {
                            class: "rank_dependence".into(),
                            detail: format!("slot {} update {}: stored as Single gives {:?}, stored as {} gives {:?}", k, t, x, name, y),
                            signature: sig,
                        });
                    }
                }
            }
        }
        // (c) slot isolation (in the rank the slot would really have: bias = Single,
        //     dense weights = Double, kernels = Triple; all equal by (b))
        if case.slots.len() > 1 {
            for k in 0..case.slots.len() {
                let (r, _) = run_env(&env, |_| run_library(opt, &case.slots, 3, &case.order, Some(k), case.clone_every));
                let alone = match r {
                    Ok(t) => t,
                    Err(e) => {
                        return Outcome::Violation(Violation {
                            class: "update_panics".into(),
                            detail: format!("isolated slot {}: {}", k, panic_class(&e)),
                            signature: sig,
                        })
                    }
                };
                for (t, (x, y)) in alone[k].iter().zip(by_rank[2][k].iter()).enumerate() {
                    if crate::cfg::bits(x) != crate::cfg::bits(y) {
                        return Outcome::Violation(Violation {
                            class: "slot_interference".into(),
                            detail: format!(
                                "slot {} (layer {}, filter {}, bias {}) update {}: alone {:?}, interleaved with the other slots {:?}",
                                k, case.slots[k].layer, case.slots[k].filter, case.slots[k].bias, t, x, y
                            ),
                            signature: sig,
                        });
                    }
                }
            }
        }
        // (a) reference model and (d) finiteness, per slot and element
        let sub = substituted(opt);
        let mut ill = 0u64;
        for (k, s) in case.slots.iter().enumerate() {
            let traj = &by_rank[2][k];
            for i in 0..s.len() {
                let mut r32 = RefState::<f32> { w: s.init[i], a: 0.0, b: 0.0, c: 0.0 };
                let mut r64 = RefState::<f64> { w: s.init[i] as f64, a: 0.0, b: 0.0, c: 0.0 };
                // conditioning probes: the same rule from a start value one ulp away, and with
                // every gradient one or two ulps larger. A trajectory that amplifies such a
                // perturbation beyond a tenth of the verdict's tolerance also amplifies the
                // rounding differences between two equally valid evaluation orders of the
                // documented rule (e.g. bias corrections folded into per-step scalars).
                let mut p_w = RefState::<f32> { w: f32::from_bits(s.init[i].to_bits().wrapping_add(1)), a: 0.0, b: 0.0, c: 0.0 };
                let mut p_g = RefState::<f32> { w: s.init[i], a: 0.0, b: 0.0, c: 0.0 };
                // finiteness witness: single precision, variance clamped
                let mut wit = RefState::<f32> { w: s.init[i], a: 0.0, b: 0.0, c: 0.0 };
                let mut conditioned = true;
                let mut moderate = true;
                for t in 0..traj.len() {
                    let g = s.gradient(t, i);
                    let step = s.stepnr(t);
                    // Adam / RMSprop divide by the running magnitude of the *effective*
                    // gradient g + decay w. Where the two terms cancel to within 1e-4 of their
                    // size (a trajectory sitting on its fixed point w = -g / decay), single
                    // precision knows that quotient to three digits at best: rounding noise
                    // over rounding noise. Every evaluation order jitters there on its own.
                    if conditioned {
                        let d = match &sub {
                            OptCfg::Adam { decay: Some(d), .. } | OptCfg::RMSprop { decay: Some(d), .. } => *d as f64,
                            _ => 0.0,
                        };
                        if d != 0.0 {
                            let (a, b) = (g as f64, d * r64.w);
                            if (a + b).abs() <= 1e-4 * (a.abs() + b.abs()) {
                                conditioned = false;
                                ill += 1;
                            }
                        }
                    }
                    // local sensitivity of this very step: value and gradient 1e-6 larger
                    // (ten times what separates two valid evaluation orders) must not move
                    // the result by more than a tenth of the verdict's tolerance - a step near
                    // a pole of m / (sqrt(v) + epsilon) does
                    let mut q = r64.clone();
                    q.w *= 1.0 + 1e-6;
                    reference_step(&sub, &mut q, g * (1.0 + 1e-6), step);
                    reference_step(&sub, &mut r32, g, step);
                    reference_step(&sub, &mut r64, g, step);
                    if conditioned && !((q.w - r64.w).abs() <= 1e-6 * r64.w.abs() + 1e-5 * (1.0 + r64.w.abs())) {
                        conditioned = false;
                        ill += 1;
                    }
                    if conditioned {
                        reference_step(&sub, &mut p_w, g, step);
                        // ... and one ulp up / down after every step (a start-value
                        // perturbation alone can be rounded away by the first large step)
                        if p_w.w.is_finite() && p_w.w != 0.0 {
                            let bits = p_w.w.to_bits();
                            p_w.w = f32::from_bits(if t % 2 == 0 { bits.wrapping_add(1) } else { bits.wrapping_sub(1) });
                        }
                        reference_step(&sub, &mut p_g, g * (1.0 + 2.4e-7), step);
                    }
                    let lib = traj[t][i];
                    if !(r64.w.is_finite() && r64.w.abs() < MODERATE && r64.a.abs() < MODERATE && r64.c.abs() < MODERATE) {
                        moderate = false;
                    }
                    // ... and the documented rule evaluated in single precision (variance clamped
                    // at its exact lower bound) must itself stay finite: where a centred variance
                    // cancels to exactly 0 the step is g / epsilon, and with a small epsilon and
                    // decay that runs away in *any* f32 implementation of the rule - the exact
                    // trajectory not overflowing is then no statement about the library
                    reference_step_clamped(&sub, &mut wit, g, step);
                    if !(wit.w.is_finite() && (wit.w as f64).abs() < MODERATE && wit.c.is_finite() && wit.a.is_finite()) {
                        moderate = false;
                    }
                    if !moderate {
                        if !lib.is_finite() && std::env::var("VERIF_DEBUG_C03").is_ok() {
                            eprintln!("DEBUG skipped non-finite: t {} lib {} r32 w {:e} a {:e} b {:e} c {:e} r64 w {:e}", t, lib, r32.w, r32.a, r32.b, r32.c, r64.w);
                        }
                        break;
                    }
                    if !lib.is_finite() {
                        return Outcome::Violation(Violation {
                            class: "non_finite".into(),
                            detail: format!(
                                "slot {} element {} becomes {} at update {} (step number {}, gradient {:e}); the exact trajectory is {:e}",
                                k, i, lib, t + 1, step, g, r64.w
                            ),
                            signature: sig,
                        });
                    }
                    if conditioned
                        && !((r32.w as f64 - r64.w).abs() <= (5e-6 + 1e-7 * (t + 1) as f64) * (1.0 + r64.w.abs())
                            && ((p_w.w - r32.w) as f64).abs() <= (1e-6 + 5e-8 * (t + 1) as f64) * (1.0 + r64.w.abs())
                            && ((p_g.w - r32.w) as f64).abs() <= (1e-6 + 5e-8 * (t + 1) as f64) * (1.0 + r64.w.abs()))
                    {
                        conditioned = false;
                        ill += 1;
                    }
                    // the tolerance grows with the number of updates: two valid single-precision
                    // evaluation orders of the same rule differ by a few ulps per step, and a
                    // free-running comparison accumulates that linearly (5000 updates: 2.6e-3)
                    if conditioned && !((lib as f64 - r64.w).abs() <= (1e-4 + 5e-7 * (t + 1) as f64) * (1.0 + r64.w.abs())) {
                        if std::env::var("VERIF_DEBUG_C03").is_ok() {
                            eprintln!("DEBUG slot {} elem {} t {}: lib {:e} r32 {:e} r64 {:e} p_w {:e} p_g {:e} g {:e}", k, i, t, lib, r32.w, r64.w, p_w.w, p_g.w, g);
                        }
                        return Outcome::Violation(Violation {
                            class: "rule_mismatch".into(),
                            detail: format!(
                                "slot {} element {} update {} (step number {}): library {:e}, documented rule {:e} (f32) / {:e} (f64)",
                                k, i, t + 1, step, lib, r32.w, r64.w
                            ),
                            signature: sig,
                        });
                    }
                }
            }
        }
        if ill > 0 {
            stats.probe("ill_conditioned_elements", true);
        }
        Outcome::Pass
    }

    fn shrink(&self, case: &Case) -> Vec<Case> {
        if let Some(h) = &case.net {
            return super::c03_net::shrink(h)
                .into_iter()
                .map(|n| Case { opt: n.net.optimizer.clone().unwrap_or(case.opt.clone()), slots: Vec::new(), order: Vec::new(), net: Some(n), clone_every: 0 })
                .collect();
        }
        let mut out = Vec::new();
        let reorder = |c: &mut Case| {
            // rebuild a valid order: keep relative order of surviving entries
            let mut left: Vec<usize> = c.slots.iter().map(|s| s.updates).collect();
            let mut order = Vec::new();
            for k in &c.order {
                let k = *k as usize;
                if k < left.len() && left[k] > 0 {
                    left[k] -= 1;
                    order.push(k as u16);
                }
            }
            for (k, l) in left.iter().enumerate() {
                for _ in 0..*l {
                    order.push(k as u16);
                }
            }
            c.order = order;
        };
        // drop a slot
        if case.slots.len() > 1 {
            for k in 0..case.slots.len() {
                let mut c = case.clone();
                c.slots.remove(k);
                c.order = case.order.iter().filter(|x| **x as usize != k).map(|x| if (*x as usize) > k { x - 1 } else { *x }).collect();
                out.push(c);
            }
        }
        // shorten streams
        for k in 0..case.slots.len() {
            let u = case.slots[k].updates;
            for smaller in [u / 2, u * 3 / 4, u.saturating_sub(1)] {
                if smaller >= 1 && smaller < u {
                    let mut c = case.clone();
                    c.slots[k].updates = smaller;
                    reorder(&mut c);
                    out.push(c);
                }
            }
        }
        // simpler shapes, addresses, patterns, step sequences
        for k in 0..case.slots.len() {
            let s = &case.slots[k];
            if s.len() > 1 {
                let mut c = case.clone();
                c.slots[k].dims = (1, 1, 1);
                c.slots[k].init.truncate(1);
                out.push(c);
            }
            if s.steps != StepSeq::Counting {
                let mut c = case.clone();
                c.slots[k].steps = StepSeq::Counting;
                out.push(c);
            }
            if s.pattern != Pattern::Constant {
                let mut c = case.clone();
                c.slots[k].pattern = Pattern::Constant;
                out.push(c);
            }
            if case.slots.len() == 1 && (s.layer != 0 || s.filter != 0 || s.bias) {
                let mut c = case.clone();
                c.slots[k].layer = 0;
                c.slots[k].filter = 0;
                c.slots[k].bias = false;
                out.push(c);
            }
        }
        // sequential order
        let mut sorted = case.order.clone();
        sorted.sort();
        if sorted != case.order {
            let mut c = case.clone();
            c.order = sorted;
            out.push(c);
        }
        // drop options
        let mut simpler: Vec<OptCfg> = Vec::new();
        match &case.opt {
            OptCfg::SGD { lr, decay } => {
                if decay.is_some() {
                    simpler.push(OptCfg::SGD { lr: *lr, decay: None });
                }
            }
            OptCfg::SGDM { lr, momentum, dampening, decay } => {
                if decay.is_some() {
                    simpler.push(OptCfg::SGDM { lr: *lr, momentum: *momentum, dampening: *dampening, decay: None });
                }
                if *dampening != 0.0 {
                    simpler.push(OptCfg::SGDM { lr: *lr, momentum: *momentum, dampening: 0.0, decay: *decay });
                }
            }
            OptCfg::Adam { lr, beta1, beta2, epsilon, decay } => {
                if decay.is_some() {
                    simpler.push(OptCfg::Adam { lr: *lr, beta1: *beta1, beta2: *beta2, epsilon: *epsilon, decay: None });
                }
            }
            OptCfg::AdamW { lr, beta1, beta2, epsilon, decay } => {
                if *decay != 0.0 {
                    simpler.push(OptCfg::AdamW { lr: *lr, beta1: *beta1, beta2: *beta2, epsilon: *epsilon, decay: 0.0 });
                }
            }
            OptCfg::RMSprop { lr, alpha, epsilon, decay, momentum, centered } => {
                if decay.is_some() {
                    simpler.push(OptCfg::RMSprop { lr: *lr, alpha: *alpha, epsilon: *epsilon, decay: None, momentum: *momentum, centered: *centered });
                }
                if momentum.is_some() {
                    simpler.push(OptCfg::RMSprop { lr: *lr, alpha: *alpha, epsilon: *epsilon, decay: *decay, momentum: None, centered: *centered });
                }
                if *centered {
                    simpler.push(OptCfg::RMSprop { lr: *lr, alpha: *alpha, epsilon: *epsilon, decay: *decay, momentum: *momentum, centered: false });
                }
            }
        }
        for o in simpler {
            let mut c = case.clone();
            c.opt = o;
            out.push(c);
        }
        out
    }

    fn nontrivial_key(&self, case: &Case, _stats: &Stats) -> Option<u64> {
        let total: usize = case.slots.iter().map(|s| s.updates).sum::<usize>() + case.net.as_ref().map(|h| h.steps.len()).unwrap_or(0);
        if total >= 2 {
            Some(crate::rng::hash_str(&serde_json::to_string(case).unwrap_or_default()))
        } else {
            None
        }
    }

    fn sample(&self, case: &Case) -> serde_json::Value {
        if let Some(h) = &case.net {
            return json!({ "optimizer": case.opt, "network": h.net, "steps": h.steps, "samples": h.data.len() });
        }
        json!({
            "optimizer": case.opt,
            "slots": case.slots,
            "interleaving_prefix": case.order.iter().take(40).collect::<Vec<_>>(),
            "total_updates": case.order.len(),
        })
    }
}
