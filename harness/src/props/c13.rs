//! C13 — early stopping and the returned histories obey their contract.
//!
//! Workload: models small enough (1-3 parameters) that the validation-loss trajectory can
//! be steered through initial parameters (hook), learning rate and independently drawn
//! training / validation targets: rising, falling, U-shaped, oscillating, plateaus of equal
//! values. Oracle over the recorded history: lengths; with stop(e) <=> e > tolerance and the
//! last `tolerance` recorded losses at epoch e are strictly increasing, stop(e) is false
//! for every e < epochs_run and epochs_run < budget => stop(epochs_run); without validation
//! data the budget is exhausted; the parameters after learn are those of exactly
//! len(train_loss) epochs of the reference trainer (ties the vectors to the epochs that
//! actually ran). Termination within the budget is the bounded-liveness clause.

use neurons::tensor;
use serde::{Deserialize, Serialize};
use serde_json::json;

use crate::cfg::*;
use crate::core::*;
use crate::exec::*;
use crate::gen::*;
use crate::rng::Rng;
use crate::scenario::*;

pub struct C13;

#[derive(Serialize, Deserialize, Clone, Debug)]
pub struct Case {
    pub sc: Scenario,
    pub env: Env,
}

struct Learned {
    train: Vec<f32>,
    val_loss: Vec<f32>,
    val_acc: Vec<f32>,
    params: Vec<Vec<f32>>,
}

fn execute(sc: &Scenario, ctx: &mut Ctx) -> Learned {
    ctx.op();
    let mut net = sc.build();
    let xs = tensors(&sc.net, &sc.train.x);
    let ys = targets(&sc.train.y);
    let xr: Vec<&tensor::Tensor> = xs.iter().collect();
    let yr: Vec<&tensor::Tensor> = ys.iter().collect();
    let (vx, vy) = match &sc.val {
        Some(v) => (tensors(&sc.net, &v.x), targets(&v.y)),
        None => (Vec::new(), Vec::new()),
    };
    let vxr: Vec<&tensor::Tensor> = vx.iter().collect();
    let vyr: Vec<&tensor::Tensor> = vy.iter().collect();
    let validation = if sc.val.is_some() { Some((&vxr, &vyr, sc.early_tol)) } else { None };
    ctx.op();
    let (train, val_loss, val_acc) = net.learn(&xr, &yr, validation, sc.batch, sc.epochs, sc.print);
    Learned { train, val_loss, val_acc, params: parameters(&net) }
}

/// The stopping predicate of the property, evaluated on the recorded losses.
fn stop(losses: &[f32], e: usize, tol: usize) -> bool {
    if e <= tol || e > losses.len() {
        return false;
    }
    let window = &losses[e - tol..e];
    window.windows(2).all(|w| w[0] < w[1])
}

fn dyadic(rng: &mut Rng) -> f32 {
    rng.pick(&[-2.0f32, -1.0, -0.5, -0.25, 0.0, 0.25, 0.5, 1.0, 2.0])
}

fn steerable(rng: &mut Rng) -> Scenario {
    let inputs = rng.range(1, 2);
    let act = rng.pick(&[Act::Linear, Act::Linear, Act::Tanh, Act::Sigmoid]);
    let bias = rng.chance(0.4);
    let exact = rng.chance(0.35);
    let mut net = NetCfg::plain(ShapeCfg::Flat(inputs), vec![LayerCfg::Dense { out: 1, act, bias, dropout: None }]);
    net.optimizer = Some(match rng.below(6) {
        0 | 1 | 2 => OptCfg::SGD {
            lr: if exact { 0.5 } else { rng.pick(&[0.01f32, 0.05, 0.1, 0.5, 0.9, 1.0, 1.1, 1.5, 2.0, 2.5]) },
            decay: None,
        },
        3 => OptCfg::Adam { lr: rng.pick(&[0.01f32, 0.1, 0.5]), beta1: 0.9, beta2: 0.999, epsilon: 1e-8, decay: None },
        4 => OptCfg::RMSprop { lr: rng.pick(&[0.01f32, 0.1]), alpha: 0.9, epsilon: 1e-8, decay: None, momentum: None, centered: false },
        _ => OptCfg::SGDM { lr: rng.pick(&[0.05f32, 0.3, 1.0]), momentum: 0.9, dampening: 0.0, decay: None },
    });
    net.objective = rng.pick(&[Obj::MSE, Obj::MSE, Obj::MAE, Obj::AE, Obj::RMSE]);
    let value = |rng: &mut Rng| if exact { dyadic(rng) } else { rng.uniform(-2.0, 2.0) };
    let n = rng.range(1, 3);
    let mut train = Data::default();
    for _ in 0..n {
        train.x.push((0..inputs).map(|_| if exact { rng.pick(&[1.0f32, 0.5, -1.0]) } else { rng.uniform(-1.5, 1.5) }).collect());
        train.y.push(vec![value(rng)]);
    }
    let with_val = rng.chance(0.85);
    let val = if with_val {
        let m = rng.range(1, 3);
        let mut d = Data::default();
        let same = rng.chance(0.25);
        for i in 0..m {
            if same && i < train.len() {
                d.x.push(train.x[i].clone());
                d.y.push(train.y[i].clone());
            } else {
                d.x.push((0..inputs).map(|_| if exact { rng.pick(&[1.0f32, 0.5, -1.0]) } else { rng.uniform(-1.5, 1.5) }).collect());
                d.y.push(vec![value(rng)]);
            }
        }
        Some(d)
    } else {
        None
    };
    let mut init = vec![(0..inputs).map(|_| value(rng)).collect::<Vec<f32>>()];
    if bias {
        init.push(vec![value(rng)]);
    }
    Scenario {
        net,
        train,
        batch: rng.range(1, n + 1),
        epochs: rng.range(1, 30) as i32,
        val,
        // (now and then the 'never stop early' idiom: the largest tolerance there is)
        early_tol: if rng.chance(0.02) { i32::MAX } else { rng.range(1, 6) as i32 },
        eval: None,
        acc_tol: 1e-3,
        pred: Vec::new(),
        init_params: Some(init),
        print: if rng.chance(0.4) { Some(rng.pick(&[1i32, 2, 3, 5, 7, 50])) } else { None },
        sweep: 0,
    }
}

/// A trajectory built on purpose around the stopping boundary: a one-weight linear model
/// under the AE objective moves by exactly `step` per epoch, so its validation loss falls
/// for F-1 epochs, then rises strictly for exactly R recorded epochs, then dips (the weight
/// overshoots the training target and turns). R is drawn within a few entries of the
/// tolerance, on both sides: a run of R >= tolerance must stop exactly when the run reaches
/// `tolerance` entries, a run one or two entries short must not stop at all — for windows
/// of 2 to 130 entries.
fn constructed_window(rng: &mut Rng, long: bool) -> Scenario {
    let tol: usize = if long {
        rng.pick(&[30usize, 63, 64, 65, 66, 100, 127, 128, 129, 130])
    } else {
        rng.range(2, 8)
    };
    let f = rng.range(1, 4);
    let r = (tol as i64 + rng.pick(&[-3i64, -2, -1, -1, 0, 0, 1, 2])).max(2) as usize;
    let k = r + f - 1;
    let step = rng.pick(&[0.01f32, 0.0078125, 0.02]);
    let dir = if rng.chance(0.5) { 1.0f32 } else { -1.0 };
    let w0 = rng.uniform(-0.5, 0.5);
    let t = w0 + dir * (k as f32 - 0.5) * step;
    let v = w0 + dir * (f as f32 - 0.5) * step;
    let mut net = NetCfg::plain(ShapeCfg::Flat(1), vec![LayerCfg::Dense { out: 1, act: Act::Linear, bias: false, dropout: None }]);
    net.optimizer = Some(OptCfg::SGD { lr: step, decay: None });
    net.objective = Obj::AE;
    Scenario {
        net,
        train: Data { x: vec![vec![1.0]], y: vec![vec![t]] },
        batch: 1,
        epochs: (k + rng.range(2, 12)) as i32,
        val: Some(Data { x: vec![vec![1.0]], y: vec![vec![v]] }),
        early_tol: tol as i32,
        eval: None,
        acc_tol: 1e-3,
        pred: Vec::new(),
        init_params: Some(vec![vec![w0]]),
        print: if rng.chance(0.2) { Some(rng.pick(&[1i32, 2, 7])) } else { None },
        sweep: 0,
    }
}

impl Property for C13 {
    type Case = Case;

    fn id(&self) -> &'static str {
        "C13"
    }

    fn rule(&self) -> &'static str {
        "one case = a training run (75%: 1-3 parameter model with hook-set initial parameters, learning rate from 0.01 to 2.5 and independently drawn train/validation targets; 25%: generated general network) with tolerance 1-6, epoch budget 1-30, with or without validation data, under a drawn schedule; the three returned vectors and the final parameters are checked against the stopping contract; distinct = hash of the recorded validation-loss trajectory bits + (tolerance, budget); non-trivial = validation data given and at least 2 epochs recorded"
    }

    fn assumptions(&self) -> Vec<String> {
        vec![
            "`strictly increased throughout the last tolerance recorded epochs` is read as the property's anchored mechanism states it: the last `tolerance` recorded losses form a strictly increasing sequence (tolerance-1 comparisons; a window of one value is vacuously increasing)".into(),
            "a NaN validation loss is not an increase: a window containing one is not strictly increasing".into(),
            "the number of epochs actually run is observed through the final parameters: they must equal the reference trainer's after len(train_loss) epochs (1e-4 relative)".into(),
        ]
    }

    fn runs(&self, tier: Tier) -> u64 {
        match tier {
            Tier::Quick => 100000,
            Tier::Thorough => 6000000,
        }
    }

    fn required_probes(&self) -> Vec<&'static str> {
        vec![
            "print_some_with_validation",
            "early_stop_fired",
            "ran_to_budget_with_validation",
            "equal_neighbours_in_window",
            "without_validation",
            "shape_rising",
            "shape_falling",
            "shape_u",
            "shape_oscillating",
            "shape_plateau",
            "tolerance_1",
            "tolerance_i32_max",
            "tolerance_ge_4",
            "stop_at_first_possible_epoch",
            "stop_later_than_first_possible_epoch",
            "budget_le_tolerance",
            "nan_in_trajectory",
            "budget_ge_100",
            "tolerance_ge_10",
            "tolerance_ge_65_with_long_run",
            "run_one_short_of_tolerance",
            "run_reaches_tolerance",
        ]
    }

    fn generate(&self, rng: &mut Rng, _tier: Tier) -> Case {
        let scale_case = begin_case(rng);
        let sc = if (scale_case && rng.chance(0.5)) || rng.chance(0.03) {
            constructed_window(rng, scale_case)
        } else if rng.chance(0.75) {
            let mut sc = steerable(rng);
            if scale_case {
                // long runs: budgets in the hundreds, windows up to beyond 128 entries, and
                // slow dynamics (tiny steps, heavy momentum) so that the validation loss
                // rises or falls monotonically for tens of epochs before it turns
                sc.epochs = rng.range(60, 400) as i32;
                sc.early_tol = rng.pick(&[1i32, 3, 8, 15, 30, 63, 64, 65, 66, 100, 129]);
                if rng.chance(0.6) {
                    sc.net.optimizer = Some(if rng.chance(0.6) {
                        OptCfg::SGDM { lr: rng.uniform(0.0006, 0.003), momentum: 0.99, dampening: 0.0, decay: None }
                    } else {
                        OptCfg::SGD { lr: rng.uniform(0.0005, 0.01), decay: None }
                    });
                }
            }
            sc
        } else {
            let mut sc = super::c05::gen_scenario(rng, false);
            if rng.chance(0.85) {
                let v = rng.range(1, 4);
                sc.val = Some(gen_data(rng, &sc.net, v));
            }
            sc.early_tol = if rng.chance(0.03) { i32::MAX } else { rng.range(1, 5) as i32 };
            sc.epochs = rng.range(1, 12) as i32;
            if rng.chance(0.4) {
                sc.print = Some(rng.pick(&[1i32, 2, 3, 5, 7, 50, i32::MAX]));
            }
            sc
        };
        let (clock, _) = draw_clock(rng);
        let env = draw_env(rng, clock, true);
        Case { sc, env }
    }

    fn check(&self, case: &Case, stats: &mut Stats) -> Outcome {
        let sc = &case.sc;
        let tol = sc.early_tol.max(0) as usize;
        let budget = sc.epochs.max(0) as usize;
        for p in self.required_probes() {
            stats.probe(p, false);
        }
        stats.probe("without_validation", sc.val.is_none());
        stats.probe("print_some_with_validation", sc.val.is_some() && sc.print.is_some());
        stats.probe("tolerance_1", sc.val.is_some() && tol == 1);
        stats.probe("tolerance_i32_max", sc.val.is_some() && sc.early_tol == i32::MAX);
        stats.probe("tolerance_ge_4", sc.val.is_some() && tol >= 4);
        stats.probe("budget_le_tolerance", sc.val.is_some() && budget <= tol);
        stats.probe("budget_ge_100", budget >= 100);
        stats.probe("tolerance_ge_10", sc.val.is_some() && tol >= 10);
        stats.probe("tolerance_ge_65_with_long_run", sc.val.is_some() && tol >= 65 && budget > tol + 10);

        let (got, info) = run_env(&case.env, |ctx| execute(sc, ctx));
        stats.execution(&case.env, &info);
        stats.operations += 1;
        if let Some(d) = divergence(&case.env, &info) {
            return Outcome::HarnessError(d);
        }
        let got = match got {
            Ok(g) => g,
            Err(e) => {
                // The networks' own limits (shape panics, a NaN loss, an arg-max over a NaN
                // validation prediction) do not depend on the tolerance or on `print`. If the
                // same run with a tolerance that is merely larger than the budget and without
                // printing does not end in the same panic, the panic belongs to learn's
                // stopping / reporting bookkeeping: training stopped (crashed) although the
                // stopping condition cannot hold.
                let mut plain = sc.clone();
                plain.print = None;
                if plain.val.is_some() {
                    plain.early_tol = sc.epochs.max(0).saturating_add(5);
                }
                if plain.early_tol != sc.early_tol || plain.print != sc.print {
                    let mut lenient = case.env.clone();
                    lenient.lenient = true;
                    let (again, _) = run_env(&lenient, |ctx| execute(&plain, ctx));
                    let same = match &again {
                        Err(a) => panic_class(a) == panic_class(&e),
                        Ok(_) => false,
                    };
                    if !same {
                        return Outcome::Violation(Violation {
                            class: "learn_panics_for_this_tolerance_or_print".into(),
                            detail: format!(
                                "learn panics ({}) with tolerance {} / print {:?}, but {} with tolerance {} and no printing",
                                panic_class(&e),
                                sc.early_tol,
                                sc.print,
                                match &again {
                                    Ok(_) => "completes".to_string(),
                                    Err(a) => format!("panics differently ({})", panic_class(a)),
                                },
                                plain.early_tol
                            ),
                            signature: json!({ "tolerance": tol, "with_validation": sc.val.is_some() }),
                        });
                    }
                }
                return Outcome::Degenerate(format!("learn panics: {}", panic_class(&e)));
            }
        };
        got.train.iter().chain(got.val_loss.iter()).chain(got.val_acc.iter()).for_each(|x| stats.observe(x.to_bits() as u64));
        for t in got.params.iter() {
            t.iter().for_each(|x| stats.observe(x.to_bits() as u64));
        }
        let sig = json!({ "tolerance": tol, "with_validation": sc.val.is_some() });
        let run = got.train.len();
        let viol = |class: &str, detail: String| {
            Outcome::Violation(Violation { class: class.to_string(), detail, signature: sig.clone() })
        };

        // ---- lengths -------------------------------------------------------------------
        if run > budget {
            return viol("ran_past_budget", format!("{} training-loss entries for a budget of {} epochs", run, budget));
        }
        if run == 0 && budget > 0 {
            return viol("no_epoch_recorded", format!("no training-loss entry although {} epochs were requested", budget));
        }
        match &sc.val {
            None => {
                if !got.val_loss.is_empty() || !got.val_acc.is_empty() {
                    return viol("validation_entries_without_data", format!("{} / {} validation entries without validation data", got.val_loss.len(), got.val_acc.len()));
                }
                if run != budget {
                    return viol("stopped_without_validation", format!("{} of {} epochs run without validation data", run, budget));
                }
            }
            Some(_) => {
                if got.val_loss.len() != run || got.val_acc.len() != run {
                    return viol(
                        "history_lengths",
                        format!("{} training-loss entries but {} validation losses and {} accuracies", run, got.val_loss.len(), got.val_acc.len()),
                    );
                }
            }
        }

        // ---- the epochs that actually ran (through the final parameters) ----------------
        let mut ref_env = Env::reference(case.env.clock);
        ref_env.hash_seed = case.env.hash_seed;
        let (expected, ref_info) = run_env(&ref_env, |_| super::c04::reference_trainer(sc, run as i32));
        stats.execution(&ref_env, &ref_info);
        match expected {
            Ok(exp) => {
                for (t, (e, g)) in exp.params.iter().zip(got.params.iter()).enumerate() {
                    for (a, b) in e.iter().zip(g.iter()) {
                        if !super::c04::close(*a, *b, 1e-4) {
                            // the property fixes no association of the gradient sum: is the
                            // reference trainer's own result stable under re-association?
                            for order in [super::c04::SumOrder::Reverse, super::c04::SumOrder::Pairwise] {
                                let (probe, _) = run_env(&ref_env, |_| super::c04::with_sum_order(order, || super::c04::reference_trainer(sc, run as i32)));
                                let stable = match &probe {
                                    Ok(p) => p.params.iter().zip(exp.params.iter()).all(|(x, y)| x.iter().zip(y.iter()).all(|(u, v)| super::c04::close(*u, *v, 1e-5))),
                                    Err(_) => false,
                                };
                                if !stable {
                                    return Outcome::Degenerate("ill-conditioned: the reference trainer's own result depends on the association of the gradient sum".into());
                                }
                            }
                            return viol(
                                "parameters_not_after_recorded_epochs",
                                format!("{} epochs recorded, but parameter tensor {} is {:e} where {} epochs of training give {:e}", run, t, b, run, a),
                            );
                        }
                    }
                }
            }
            Err(e) => return Outcome::Degenerate(format!("reference trainer panics: {}", panic_class(&e))),
        }

        // ---- the stopping rule over the recorded history --------------------------------
        if sc.val.is_some() {
            // A NaN validation loss is not an increase: `stop` uses `<`, which is false for
            // every comparison that involves a NaN.
            stats.probe("nan_in_trajectory", got.val_loss.iter().any(|l| l.is_nan()));
            for e in 1..run {
                if stop(&got.val_loss, e, tol) {
                    return viol(
                        "continued_past_stop",
                        format!("the stopping condition held at epoch {} (tolerance {}, losses {:?}) but training continued to epoch {}", e, tol, &got.val_loss[e - tol..e], run),
                    );
                }
            }
            if run < budget && !stop(&got.val_loss, run, tol) {
                return viol(
                    "stopped_without_cause",
                    format!(
                        "training stopped after {} of {} epochs (tolerance {}), but the last recorded losses {:?} are not a strictly increasing run of {} with more than {} epochs run",
                        run,
                        budget,
                        tol,
                        &got.val_loss[run.saturating_sub(tol.max(1))..run],
                        tol,
                        tol
                    ),
                );
            }
            // longest strictly rising run (in entries) and how it relates to the window
            let mut best = 1usize;
            let mut cur = 1usize;
            for w in got.val_loss.windows(2) {
                if w[0] < w[1] {
                    cur += 1;
                    best = best.max(cur);
                } else {
                    cur = 1;
                }
            }
            stats.probe("run_one_short_of_tolerance", tol >= 2 && best + 1 == tol && run > tol);
            stats.probe("run_reaches_tolerance", tol >= 2 && best == tol && run < budget);
            // ---- reach probes ------------------------------------------------------------
            stats.probe("early_stop_fired", run < budget);
            stats.probe("ran_to_budget_with_validation", run == budget && budget > tol);
            stats.probe("stop_at_first_possible_epoch", run < budget && run == tol + 1);
            stats.probe("stop_later_than_first_possible_epoch", run < budget && run > tol + 1);
            let l = &got.val_loss;
            let mut equal_in_window = false;
            for e in (tol + 1)..=run {
                if tol >= 2 && l[e - tol..e].windows(2).any(|w| w[0] == w[1]) {
                    equal_in_window = true;
                }
            }
            stats.probe("equal_neighbours_in_window", equal_in_window);
            if l.len() >= 3 {
                let ups = l.windows(2).filter(|w| w[1] > w[0]).count();
                let downs = l.windows(2).filter(|w| w[1] < w[0]).count();
                let flats = l.windows(2).filter(|w| w[1] == w[0]).count();
                let changes = l.windows(3).filter(|w| (w[1] > w[0]) != (w[2] > w[1]) && w[1] != w[0] && w[2] != w[1]).count();
                stats.probe("shape_rising", downs == 0 && flats == 0);
                stats.probe("shape_falling", ups == 0 && flats == 0);
                stats.probe("shape_u", changes == 1 && l[1] < l[0] && l[l.len() - 1] > l[l.len() - 2]);
                stats.probe("shape_oscillating", changes >= 3);
                stats.probe("shape_plateau", flats >= 2);
            }
        }
        Outcome::Pass
    }

    fn pin(&self, case: &Case) -> Case {
        let (_, info) = run_env(&case.env, |ctx| execute(&case.sc, ctx));
        Case { sc: case.sc.clone(), env: to_replay(&case.env, &info) }
    }

    fn shrink(&self, case: &Case) -> Vec<Case> {
        let mut out = Vec::new();
        for e in shrink_env(&case.env) {
            out.push(Case { sc: case.sc.clone(), env: e });
        }
        let mut env = case.env.clone();
        env.lenient = true;
        // budget and tolerance towards small values
        for epochs in [case.sc.epochs / 2, case.sc.epochs - 1] {
            if epochs >= 1 && epochs < case.sc.epochs {
                let mut sc = case.sc.clone();
                sc.epochs = epochs;
                out.push(Case { sc, env: env.clone() });
            }
        }
        for t in [1, case.sc.early_tol - 1] {
            if t >= 1 && t < case.sc.early_tol {
                let mut sc = case.sc.clone();
                sc.early_tol = t;
                out.push(Case { sc, env: env.clone() });
            }
        }
        for sc in shrink_scenario(&case.sc) {
            // keep validation data: the property is about it
            if sc.val.is_some() == case.sc.val.is_some() && sc.epochs == case.sc.epochs {
                out.push(Case { sc, env: env.clone() });
            }
        }
        out
    }

    fn nontrivial_key(&self, case: &Case, _stats: &Stats) -> Option<u64> {
        // the trajectory itself is not stored in the case; key on everything that decides it
        if case.sc.val.is_some() && case.sc.epochs >= 2 {
            let mut h = scenario_key(&case.sc);
            h = crate::rng::mix64(h ^ crate::rng::hash_str(&serde_json::to_string(&case.sc.init_params).unwrap_or_default()));
            h = crate::rng::mix64(h ^ crate::rng::hash_str(&serde_json::to_string(&case.sc.val).unwrap_or_default()));
            Some(h)
        } else {
            None
        }
    }

    fn sample(&self, case: &Case) -> serde_json::Value {
        json!({
            "network": case.sc.net,
            "initial_parameters": case.sc.init_params,
            "train": case.sc.train,
            "validation": case.sc.val,
            "batch": case.sc.batch,
            "epoch_budget": case.sc.epochs,
            "tolerance": case.sc.early_tol,
            "env": case.env,
        })
    }
}
