//! C09 — dropout never leaks into prediction or validation.
//!
//! State under test: the per-layer training flags, toggled by learn (entry/exit) and by
//! validate (cleared, restored only when called during training). Workload: an operation
//! history (learn with/without validation, validate, predict, predict_batch) on one network
//! with dropout on a drawn subset of layers. Oracles after every operation:
//!  (a) every training flag is false;
//!  (b) predict(x) is bitwise the prediction of a twin built without dropout that holds
//!      the same parameters;
//!  (c) for learn with validation: the metrics recorded for epoch k equal validate() of the
//!      dropout-free twin holding the parameters after k epochs (obtained by replaying the
//!      history prefix with the last learn cut to k epochs and no validation);
//!  (d) validate() called right after learn returns equals the last recorded entry.

use neurons::{network, tensor};
use serde::{Deserialize, Serialize};
use serde_json::json;

use crate::cfg::*;
use crate::core::*;
use crate::exec::*;
use crate::gen::*;
use crate::rng::Rng;
use crate::scenario::{shrink_net, targets, tensors};

pub struct C09;

#[derive(Serialize, Deserialize, Clone, Debug, PartialEq)]
pub enum Op {
    /// `tol`: early-stopping tolerance handed to learn with the validation data
    /// (`None` = a tolerance larger than any budget, i.e. never stops early)
    Learn {
        epochs: i32,
        with_val: bool,
        #[serde(default)]
        tol: Option<i32>,
        #[serde(default)]
        print: Option<i32>,
    },
    Validate,
    Predict,
    PredictBatch,
}

#[derive(Serialize, Deserialize, Clone, Debug)]
pub struct Case {
    pub net: NetCfg,
    pub env: Env,
    pub train: Data,
    pub batch: usize,
    pub val: Data,
    pub ops: Vec<Op>,
    /// `Some(i)`: the history starts on the same network *without* dropout; before operation i
    /// the public `layers` field is replaced by the layers of a freshly built network with the
    /// configured dropout (same depth - "a new head for fine-tuning") and the optimizer is
    /// attached again. Whatever the library remembered about the old layers is stale then.
    #[serde(default)]
    pub transplant_at: Option<usize>,
}

#[derive(Clone, Debug, Default)]
struct Step {
    flags: Vec<bool>,
    params: Vec<Vec<f32>>,
    probes: Vec<Vec<u32>>,
    val_loss: Vec<f32>,
    val_acc: Vec<f32>,
    validate_after: Option<(f32, f32)>,
    validate: Option<(f32, f32)>,
    batch_out: Option<Vec<Vec<u32>>>,
}

const LEARN_TOL: f32 = 1e-6;

struct Ready {
    net: network::Network,
    xs: Vec<tensor::Tensor>,
    ys: Vec<tensor::Tensor>,
    vx: Vec<tensor::Tensor>,
    vy: Vec<tensor::Tensor>,
}

fn prepare(case: &Case, net_cfg: &NetCfg) -> Ready {
    Ready {
        net: net_cfg.build(),
        xs: tensors(&case.net, &case.train.x),
        ys: targets(&case.train.y),
        vx: tensors(&case.net, &case.val.x),
        vy: targets(&case.val.y),
    }
}

fn probe_inputs(r: &Ready) -> Vec<&tensor::Tensor> {
    r.xs.iter().take(2).chain(r.vx.iter().take(2)).collect()
}

fn apply(r: &mut Ready, case: &Case, op: &Op, ctx: &mut Ctx, step: &mut Step) {
    ctx.op();
    match op {
        Op::Learn { epochs, with_val, tol, print } => {
            let xr: Vec<&tensor::Tensor> = r.xs.iter().collect();
            let yr: Vec<&tensor::Tensor> = r.ys.iter().collect();
            let vxr: Vec<&tensor::Tensor> = r.vx.iter().collect();
            let vyr: Vec<&tensor::Tensor> = r.vy.iter().collect();
            // early stopping itself is C13's business; here it only decides how learn exits
            let validation = if *with_val { Some((&vxr, &vyr, tol.unwrap_or(1000))) } else { None };
            let (_, vl, va) = r.net.learn(&xr, &yr, validation, case.batch, *epochs, *print);
            step.val_loss = vl;
            step.val_acc = va;
            if *with_val {
                ctx.op();
                step.validate_after = Some(r.net.validate(&vxr, &vyr, LEARN_TOL));
            }
        }
        Op::Validate => {
            let vxr: Vec<&tensor::Tensor> = r.vx.iter().collect();
            let vyr: Vec<&tensor::Tensor> = r.vy.iter().collect();
            step.validate = Some(r.net.validate(&vxr, &vyr, LEARN_TOL));
        }
        Op::Predict => {
            if let Some(x) = r.xs.first().or(r.vx.first()) {
                let _ = r.net.predict(x);
            }
        }
        Op::PredictBatch => {
            let xr: Vec<&tensor::Tensor> = r.xs.iter().chain(r.vx.iter()).collect();
            step.batch_out = Some(r.net.predict_batch(&xr).iter().map(|t| bits(&flat(t))).collect());
        }
    }
}

fn start(case: &Case) -> Ready {
    match case.transplant_at {
        Some(_) => prepare(case, &case.net.without_dropout()),
        None => prepare(case, &case.net),
    }
}

fn transplant_if_due(r: &mut Ready, case: &Case, index: usize) {
    if case.transplant_at == Some(index) {
        let donor = case.net.build();
        r.net.layers = donor.layers;
        if let Some(opt) = &case.net.optimizer {
            r.net.set_optimizer(opt.to_lib());
        }
    }
}

/// The history under test; one `Step` per operation.
fn execute(case: &Case, ctx: &mut Ctx) -> Vec<Step> {
    ctx.op();
    let mut r = start(case);
    let mut steps = Vec::new();
    for (index, op) in case.ops.iter().enumerate() {
        let mut step = Step::default();
        transplant_if_due(&mut r, case, index);
        apply(&mut r, case, op, ctx, &mut step);
        step.flags = training_flags(&r.net);
        step.params = parameters(&r.net);
        step.probes = probe_inputs(&r).iter().map(|x| bits(&flat(&r.net.predict(x)))).collect();
        steps.push(step);
    }
    steps
}

/// Parameters after replaying ops[..i] unchanged and then `learn(k, validation = None)`.
fn params_after_prefix(case: &Case, i: usize, k: i32, ctx: &mut Ctx) -> Vec<Vec<f32>> {
    let mut r = start(case);
    for (index, op) in case.ops[..i].iter().enumerate() {
        transplant_if_due(&mut r, case, index);
        apply(&mut r, case, op, ctx, &mut Step::default());
    }
    transplant_if_due(&mut r, case, i);
    apply(&mut r, case, &Op::Learn { epochs: k, with_val: false, tol: None, print: None }, ctx, &mut Step::default());
    parameters(&r.net)
}

fn rel_close(a: f32, b: f32) -> bool {
    if a.to_bits() == b.to_bits() || (a.is_nan() && b.is_nan()) {
        return true;
    }
    (a - b).abs() <= 1e-6 * (1.0 + a.abs().max(b.abs()))
}

impl Property for C09 {
    type Case = Case;

    fn id(&self) -> &'static str {
        "C09"
    }

    fn rule(&self) -> &'static str {
        "one case = a generated network with dropout on a drawn subset of layers and an operation history of length 1-5 over {learn(E<=4) with/without validation data, validate, predict, predict_batch} executed under a drawn schedule, checked after every operation against a dropout-free twin; distinct = hash of (network configuration, history, sizes); non-trivial = the dropout mask changes at least one training-mode activation (training-mode and evaluation-mode forward passes differ on a probe input) and the history contains a learn"
    }

    fn assumptions(&self) -> Vec<String> {
        vec![
            "training is prefix-consistent (learn(k) reaches the state learn(E) has after k epochs) and schedule-independent (decided by C05); oracle (c) relies on both".into(),
            "recorded and reference metrics are compared bitwise, else within 1e-6 relative".into(),
            "networks end in a dense layer without dropout (validate supports only dense outputs)".into(),
        ]
    }

    fn runs(&self, tier: Tier) -> u64 {
        match tier {
            Tier::Quick => 40000,
            Tier::Thorough => 2000000,
        }
    }

    fn required_probes(&self) -> Vec<&'static str> {
        vec![
            "dropout_mask_nontrivial",
            "dropout_at_or_after_second_dense",
            "dropout_in_conv",
            "dropout_in_feedback",
            "learn_with_validation",
            "empty_training_set",
            "layers_replaced_mid_history",
            "learn_with_zero_epochs",
            "no_top_level_trainable_layer",
            "learn_then_learn",
            "validate_outside_training",
            "epochs_ge_2_with_validation",
            "early_stop_fired",
        ]
    }

    fn generate(&self, rng: &mut Rng, _tier: Tier) -> Case {
        let scale_case = begin_case(rng);
        let mut opts = GenOpts::swarm(rng);
        opts.dropout = true;
        opts.max_hidden = rng.range(1, 4);
        let mut net = gen_net(rng, &opts);
        // make sure some layer really has dropout (the generator draws it per layer)
        if !net.has_dropout() {
            let idx = rng.below(net.layers.len());
            let count = net.layers.len();
            if let LayerCfg::Dense { dropout, .. } | LayerCfg::Conv { dropout, .. } | LayerCfg::Deconv { dropout, .. } = &mut net.layers[idx] {
                if idx + 1 != count {
                    *dropout = Some(rng.pick(&[0.3f32, 0.5, 0.8]));
                }
            }
        }
        let scale_case = scale_case && !very_wide(&net);
        // now and then a network without any top-level dense / convolution / deconvolution
        // layer: feedback blocks only (`validate` refuses such a network, `learn` without
        // validation data and `predict` do not)
        let mut headless = false;
        if !scale_case && rng.chance(0.04) {
            let width = rng.pick(&[2usize, 3, 4, 5]);
            let mut blocks = Vec::new();
            for _ in 0..12 {
                if let Some(b) = gen_feedback(rng, &opts, ShapeCfg::Flat(width), 4) {
                    if b.dropout().is_some() || !blocks.is_empty() {
                        blocks.push(b);
                    }
                }
                if blocks.len() >= rng.range(1, 2) {
                    break;
                }
            }
            if !blocks.is_empty() {
                let mut n = NetCfg::plain(ShapeCfg::Flat(width), blocks);
                n.optimizer = net.optimizer.clone();
                n.objective = Obj::MSE;
                if n.shapes().is_some() && n.has_dropout() {
                    net = n;
                    headless = true;
                }
            }
        }
        // now and then an empty training set: `learn` then has no batch to step on, but it
        // still toggles the flags, validates every epoch and has to leave evaluation mode
        let n = if scale_case {
            rng.range(40, 150)
        } else if rng.chance(0.03) {
            0
        } else {
            rng.range(1, 8)
        };
        let train = gen_data(rng, &net, n);
        let v = if scale_case { rng.range(65, 200) } else { rng.range(1, 6) };
        let val = gen_data(rng, &net, v);
        let batch = rng.range(1, n + 1);
        let mut ops = Vec::new();
        let len = if scale_case { rng.range(1, 2) } else { rng.range(1, 5) };
        for _ in 0..len {
            let print = if rng.chance(0.3) { Some(rng.pick(&[1i32, 2, 3, 5])) } else { None };
            ops.push(match rng.below(7) {
                0 | 1 | 2 => Op::Learn {
                    epochs: if scale_case { rng.range(4, 10) as i32 } else { rng.range(1, 6) as i32 },
                    with_val: true,
                    tol: if rng.chance(0.5) { Some(rng.range(1, 3) as i32) } else { None },
                    print,
                },
                // ("any number of epochs": now and then none at all - the flags are still toggled)
                3 => Op::Learn { epochs: if rng.chance(0.15) { 0 } else { rng.range(1, 3) as i32 }, with_val: rng.chance(0.3), tol: None, print },
                4 => Op::Validate,
                5 => Op::Predict,
                _ => Op::PredictBatch,
            });
        }
        if !ops.iter().any(|o| matches!(o, Op::Learn { .. })) {
            let at = rng.below(ops.len());
            ops[at] = Op::Learn { epochs: rng.range(1, 4) as i32, with_val: true, tol: None, print: None };
        }
        // (half of them keep their validation operations: the unchanged library refuses to
        // validate a network that does not end in a dense layer - a degenerate case - but a
        // library that learns to do so has to do it in evaluation mode)
        if headless && rng.chance(0.5) {
            for op in ops.iter_mut() {
                *op = match op.clone() {
                    Op::Learn { epochs, print, .. } => Op::Learn { epochs, with_val: false, tol: None, print },
                    Op::Validate => Op::Predict,
                    other => other,
                };
            }
        }
        let (clock, _) = draw_clock(rng);
        let env = draw_env(rng, clock, true);
        // (the transplanted layers must fit the old ones: no headless networks here)
        let transplant_at = if !headless && !scale_case && ops.len() >= 2 && rng.chance(0.06) { Some(rng.range(1, ops.len() - 1)) } else { None };
        Case { net, env, train, batch, val, ops, transplant_at }
    }

    fn check(&self, case: &Case, stats: &mut Stats) -> Outcome {
        // ---- probes about the workload -------------------------------------------------
        let mut dense_seen = 0;
        let mut after_second = false;
        let mut in_conv = false;
        let mut in_fb = false;
        for l in &case.net.layers {
            if let LayerCfg::Dense { .. } = l {
                dense_seen += 1;
            }
            if l.dropout().is_some() {
                if dense_seen >= 2 {
                    after_second = true;
                }
                match l {
                    LayerCfg::Conv { .. } | LayerCfg::Deconv { .. } => in_conv = true,
                    LayerCfg::Feedback { .. } => in_fb = true,
                    _ => {}
                }
            }
        }
        stats.probe("dropout_at_or_after_second_dense", after_second);
        stats.probe("dropout_in_conv", in_conv);
        stats.probe("dropout_in_feedback", in_fb);
        let learns: Vec<usize> = case.ops.iter().enumerate().filter(|(_, o)| matches!(o, Op::Learn { .. })).map(|(i, _)| i).collect();
        stats.probe("empty_training_set", case.train.len() == 0);
        stats.probe("layers_replaced_mid_history", case.transplant_at.is_some());
        stats.probe("learn_with_zero_epochs", case.ops.iter().any(|o| matches!(o, Op::Learn { epochs: 0, .. })));
        stats.probe("no_top_level_trainable_layer", case.net.layers.iter().all(|l| matches!(l, LayerCfg::Feedback { .. } | LayerCfg::Maxpool { .. })));
        stats.probe("learn_with_validation", case.ops.iter().any(|o| matches!(o, Op::Learn { with_val: true, .. })));
        stats.probe("epochs_ge_2_with_validation", case.ops.iter().any(|o| matches!(o, Op::Learn { with_val: true, epochs, .. } if *epochs >= 2)));
        stats.probe("early_stop_fired", false);
        stats.probe("learn_then_learn", learns.len() >= 2);
        stats.probe(
            "validate_outside_training",
            case.ops.iter().any(|o| matches!(o, Op::Validate)),
        );
        stats.probe("dropout_mask_nontrivial", false);

        // ---- the history under test ----------------------------------------------------
        let (steps, info) = run_env(&case.env, |ctx| execute(case, ctx));
        stats.execution(&case.env, &info);
        stats.operations += case.ops.len() as u64;
        if let Some(d) = divergence(&case.env, &info) {
            return Outcome::HarnessError(d);
        }
        let steps = match steps {
            Ok(s) => s,
            Err(e) => return Outcome::Degenerate(format!("history panics: {}", panic_class(&e))),
        };
        let mut ref_env = Env::reference(case.env.clock);
        ref_env.hash_seed = case.env.hash_seed;
        let plain = case.net.without_dropout();
        let sig = json!({
            "dropout_at_or_after_second_dense": after_second,
            "dropout_in_feedback": in_fb,
        });

        // Is dropout observable at all for this network? (training-mode forward differs)
        let (nontrivial, _) = run_env(&ref_env, |_| {
            let mut r = prepare(case, &case.net);
            let a: Vec<Vec<u32>> = probe_inputs(&r).iter().map(|x| bits(&flat(&r.net.predict(x)))).collect();
            for l in r.net.layers.iter_mut() {
                neurons::verif::set_layer_training(l, true);
            }
            let b: Vec<Vec<u32>> = probe_inputs(&r).iter().map(|x| bits(&flat(&r.net.predict(x)))).collect();
            a != b
        });
        let nontrivial = nontrivial.unwrap_or(false);
        stats.probe("dropout_mask_nontrivial", nontrivial);

        for step in steps.iter() {
            for t in step.params.iter() {
                t.iter().for_each(|x| stats.observe(x.to_bits() as u64));
            }
            step.val_loss.iter().chain(step.val_acc.iter()).for_each(|x| stats.observe(x.to_bits() as u64));
        }
        for (i, step) in steps.iter().enumerate() {
            // (a) flags
            if step.flags.iter().any(|f| *f) {
                return Outcome::Violation(Violation {
                    class: "flag_left_on".into(),
                    detail: format!("after operation {} ({:?}) {} of {} training flags are still set", i, case.ops[i], step.flags.iter().filter(|f| **f).count(), step.flags.len()),
                    signature: sig,
                });
            }
            // (b) predict equals the dropout-free twin with the same parameters
            let params = step.params.clone();
            let want_validate = step.validate.is_some();
            let want_batch = step.batch_out.is_some();
            let (twin, twin_info) = run_env(&ref_env, |_| {
                let mut r = prepare(case, &plain);
                set_parameters(&mut r.net, &params);
                let probes = probe_inputs(&r).iter().map(|x| bits(&flat(&r.net.predict(x)))).collect::<Vec<_>>();
                let batch = if want_batch {
                    let xr: Vec<&tensor::Tensor> = r.xs.iter().chain(r.vx.iter()).collect();
                    Some(r.net.predict_batch(&xr).iter().map(|t| bits(&flat(t))).collect::<Vec<_>>())
                } else {
                    None
                };
                let validate = if want_validate {
                    let vxr: Vec<&tensor::Tensor> = r.vx.iter().collect();
                    let vyr: Vec<&tensor::Tensor> = r.vy.iter().collect();
                    Some(r.net.validate(&vxr, &vyr, LEARN_TOL))
                } else {
                    None
                };
                (probes, batch, validate)
            });
            stats.execution(&ref_env, &twin_info);
            match twin {
                Ok((t, twin_batch, twin_validate)) => {
                    if let (Some((gl, ga)), Some((el, ea))) = (step.validate, twin_validate) {
                        if !rel_close(gl, el) || !rel_close(ga, ea) {
                            return Outcome::Violation(Violation {
                                class: "validate_differs_from_dropout_free_twin".into(),
                                detail: format!("operation {} (Validate): (loss {:e}, acc {:e}) but the same network without dropout validates to (loss {:e}, acc {:e})", i, gl, ga, el, ea),
                                signature: sig,
                            });
                        }
                    }
                    if step.batch_out.is_some() && step.batch_out != twin_batch {
                        return Outcome::Violation(Violation {
                            class: "predict_batch_differs_from_dropout_free_twin".into(),
                            detail: format!("operation {} (PredictBatch): outputs differ from the same network without dropout", i),
                            signature: sig,
                        });
                    }
                    if t != step.probes {
                        return Outcome::Violation(Violation {
                            class: "predict_differs_from_dropout_free_twin".into(),
                            detail: format!("after operation {} ({:?}) predict differs from the same network without dropout", i, case.ops[i]),
                            signature: sig,
                        });
                    }
                }
                Err(e) => return Outcome::HarnessError(format!("dropout-free twin panics: {}", e)),
            }
            // (c) per-epoch validation metrics, (d) validate right after learn
            if let Op::Learn { with_val: true, epochs, .. } = case.ops[i] {
                if (step.val_loss.len() as i32) < epochs {
                    stats.probe("early_stop_fired", true);
                }
                if step.val_loss.len() != step.val_acc.len() {
                    return Outcome::Violation(Violation {
                        class: "history_lengths".into(),
                        detail: format!("{} validation losses but {} accuracies", step.val_loss.len(), step.val_acc.len()),
                        signature: sig,
                    });
                }
                for k in 1..=step.val_loss.len() {
                    let (expected, prefix_info) = run_env(&ref_env, |ctx| {
                        let p = params_after_prefix(case, i, k as i32, ctx);
                        let mut r = prepare(case, &plain);
                        set_parameters(&mut r.net, &p);
                        let vxr: Vec<&tensor::Tensor> = r.vx.iter().collect();
                        let vyr: Vec<&tensor::Tensor> = r.vy.iter().collect();
                        r.net.validate(&vxr, &vyr, LEARN_TOL)
                    });
                    stats.execution(&ref_env, &prefix_info);
                    stats.operations += i as u64 + 2;
                    let (el, ea) = match expected {
                        Ok(x) => x,
                        Err(e) => return Outcome::Degenerate(format!("prefix replay panics: {}", panic_class(&e))),
                    };
                    let (gl, ga) = (step.val_loss[k - 1], step.val_acc[k - 1]);
                    if !rel_close(gl, el) || !rel_close(ga, ea) {
                        return Outcome::Violation(Violation {
                            class: "epoch_validation_metrics".into(),
                            detail: format!(
                                "operation {} ({:?}), epoch {}: learn recorded (loss {:e}, acc {:e}); the dropout-free network with the parameters after that epoch validates to (loss {:e}, acc {:e})",
                                i, case.ops[i], k, gl, ga, el, ea
                            ),
                            signature: sig,
                        });
                    }
                }
                if let (Some((vl, va)), Some(last_l), Some(last_a)) = (step.validate_after, step.val_loss.last(), step.val_acc.last()) {
                    if !rel_close(vl, *last_l) || !rel_close(va, *last_a) {
                        return Outcome::Violation(Violation {
                            class: "validate_after_learn".into(),
                            detail: format!(
                                "operation {} ({:?}): last recorded (loss {:e}, acc {:e}) but validate() right after learn gives (loss {:e}, acc {:e})",
                                i, case.ops[i], last_l, last_a, vl, va
                            ),
                            signature: sig,
                        });
                    }
                }
            }
        }
        if nontrivial {
            Outcome::Pass
        } else {
            Outcome::Degenerate("dropout mask changes nothing for this network (trivial)".into())
        }
    }

    fn pin(&self, case: &Case) -> Case {
        let (_, info) = run_env(&case.env, |ctx| execute(case, ctx));
        let mut c = case.clone();
        c.env = to_replay(&case.env, &info);
        c
    }

    fn shrink(&self, case: &Case) -> Vec<Case> {
        let mut out = Vec::new();
        let lenient = |c: &Case| {
            let mut c = c.clone();
            c.env.lenient = true;
            c
        };
        if case.transplant_at.is_some() {
            let mut c = lenient(case);
            c.transplant_at = None;
            out.push(c);
        }
        // drop operations (keeping at least one)
        if case.ops.len() > 1 {
            for i in (0..case.ops.len()).rev() {
                let mut c = lenient(case);
                c.ops.remove(i);
                // keep the transplant in front of the operation it preceded
                if let Some(t) = c.transplant_at {
                    if i < t {
                        c.transplant_at = Some(t - 1);
                    }
                    if c.transplant_at.map(|t| t >= c.ops.len()).unwrap_or(false) {
                        c.transplant_at = None;
                    }
                }
                out.push(c);
            }
        }
        for (i, op) in case.ops.iter().enumerate() {
            if let Op::Learn { epochs, with_val, tol, print } = op {
                if *epochs > 1 {
                    let mut c = lenient(case);
                    c.ops[i] = Op::Learn { epochs: 1, with_val: *with_val, tol: *tol, print: *print };
                    out.push(c);
                    let mut c = lenient(case);
                    c.ops[i] = Op::Learn { epochs: epochs - 1, with_val: *with_val, tol: *tol, print: *print };
                    out.push(c);
                }
                if print.is_some() {
                    let mut c = lenient(case);
                    c.ops[i] = Op::Learn { epochs: *epochs, with_val: *with_val, tol: *tol, print: None };
                    out.push(c);
                }
                if tol.is_some() {
                    let mut c = lenient(case);
                    c.ops[i] = Op::Learn { epochs: *epochs, with_val: *with_val, tol: None, print: *print };
                    out.push(c);
                }
            }
        }
        for e in shrink_env(&case.env) {
            let mut c = case.clone();
            c.env = e;
            out.push(c);
        }
        if case.train.len() > 1 {
            let mut c = lenient(case);
            c.train.x.truncate(1);
            c.train.y.truncate(1);
            c.batch = 1;
            out.push(c);
            let mut c = lenient(case);
            c.train.x.pop();
            c.train.y.pop();
            out.push(c);
        }
        if case.val.len() > 1 {
            let mut c = lenient(case);
            c.val.x.truncate(1);
            c.val.y.truncate(1);
            out.push(c);
        }
        if case.batch > 1 {
            let mut c = lenient(case);
            c.batch = 1;
            out.push(c);
        }
        for n in shrink_net(&case.net) {
            // removing all dropout would make the case trivial; keep those that retain it
            if n.input == case.net.input && n.has_dropout() {
                let mut c = lenient(case);
                c.net = n;
                out.push(c);
            }
        }
        // remove dropout from one layer at a time
        for i in 0..case.net.layers.len() {
            if case.net.layers[i].dropout().is_some() {
                let mut n = case.net.clone();
                n.layers[i] = n.layers[i].without_dropout();
                if n.has_dropout() {
                    let mut c = lenient(case);
                    c.net = n;
                    out.push(c);
                }
            }
        }
        out
    }

    fn nontrivial_key(&self, case: &Case, _stats: &Stats) -> Option<u64> {
        let mut h = crate::rng::hash_str(&serde_json::to_string(&case.net).unwrap_or_default());
        h = crate::rng::mix64(h ^ crate::rng::hash_str(&serde_json::to_string(&case.ops).unwrap_or_default()));
        for v in [case.train.len() as u64, case.val.len() as u64, case.batch as u64] {
            h = crate::rng::mix64(h ^ v);
        }
        Some(h)
    }

    fn sample(&self, case: &Case) -> serde_json::Value {
        json!({
            "network": case.net,
            "history": case.ops,
            "train_samples": case.train.len(),
            "validation_samples": case.val.len(),
            "batch": case.batch,
            "env": case.env,
        })
    }
}
