//! One simulated execution: installs the run's environment (pool width, scheduling
//! policy or decision trace, hash seed, clock script) in the thread-local seams, runs the
//! closure under `catch_unwind`, and returns what the simulator recorded.

use rayon_core::sim;
use serde::{Deserialize, Serialize};
use std::cell::RefCell;
use std::panic::{catch_unwind, AssertUnwindSafe};

use crate::rng::Rng;

#[derive(Serialize, Deserialize, Clone, Copy, Debug, PartialEq)]
pub enum PolicyCfg {
    Sequential,
    Random { p_steal: f32, p_before: f32 },
    Alternate,
}

impl PolicyCfg {
    fn to_sim(self) -> sim::Policy {
        match self {
            PolicyCfg::Sequential => sim::Policy::Sequential,
            PolicyCfg::Random { p_steal, p_before } => sim::Policy::Random { p_steal, p_before },
            PolicyCfg::Alternate => sim::Policy::Alternate,
        }
    }
}

/// Everything outside the program's control that the simulator decides for one execution.
#[derive(Serialize, Deserialize, Clone, Debug, PartialEq)]
pub struct Env {
    /// width of the (global) pool; `widths[i]` (if present) replaces it before operation i
    pub width: usize,
    pub widths: Vec<usize>,
    pub policy: PolicyCfg,
    pub sched_seed: u64,
    /// decision trace (kind, n, choice); `Some` = replay mode
    pub trace: Option<Vec<(u8, u32, u32)>>,
    pub hash_seed: u64,
    /// simulated clock: (start, step) in microseconds
    pub clock: (u64, u64),
    /// minimisation only: tolerate a trace that no longer fits (mismatches choose 0);
    /// the accepted candidate is re-pinned to its actual decisions before it is reported
    #[serde(default)]
    pub lenient: bool,
    /// call the program from inside the pool (as under `ThreadPool::install`)
    #[serde(default)]
    pub inside: bool,
}

impl Env {
    pub fn reference(clock: (u64, u64)) -> Env {
        Env {
            width: 1,
            widths: Vec::new(),
            policy: PolicyCfg::Sequential,
            sched_seed: 0,
            trace: None,
            hash_seed: 0,
            clock,
            lenient: false,
            inside: false,
        }
    }
}

pub const WIDTHS: [usize; 10] = [1, 2, 3, 4, 7, 8, 16, 33, 64, 256];

/// Draw an alternative environment (swarm style: policy family first, then its knobs).
pub fn draw_env(rng: &mut Rng, clock: (u64, u64), vary_hash: bool) -> Env {
    let width = WIDTHS[rng.below(WIDTHS.len())];
    let policy = match rng.below(8) {
        0 => PolicyCfg::Random { p_steal: 0.1, p_before: 0.5 },
        1 => PolicyCfg::Random { p_steal: 0.9, p_before: 0.5 },
        2 => PolicyCfg::Random { p_steal: 1.0, p_before: 1.0 },
        3 => PolicyCfg::Random { p_steal: 1.0, p_before: 0.0 },
        4 => PolicyCfg::Alternate,
        5 => PolicyCfg::Random { p_steal: 0.03, p_before: 0.5 },
        _ => PolicyCfg::Random { p_steal: 0.5, p_before: 0.5 },
    };
    let widths = if rng.chance(0.15) {
        (0..4).map(|_| WIDTHS[rng.below(WIDTHS.len())]).collect()
    } else {
        Vec::new()
    };
    Env {
        width,
        widths,
        policy,
        sched_seed: rng.next_u64(),
        trace: None,
        hash_seed: if vary_hash { rng.next_u64() | 1 } else { 0 },
        clock,
        lenient: false,
        inside: rng.chance(0.3),
    }
}

/// Clock scripts (seam K). Returns (start, step).
pub fn draw_clock(rng: &mut Rng) -> ((u64, u64), &'static str) {
    match rng.below(10) {
        0 => ((rng.range(1, 999_999) as u64, 0), "clock_frozen"),
        1 => ((999_999, 1), "clock_edge"),
        2 => ((rng.range(1000, 999_999) as u64, 1_000_000 - rng.range(1, 999) as u64), "clock_backwards"),
        _ => ((rng.range(1, 999_999) as u64, rng.range(1, 5000) as u64), "clock_normal"),
    }
}

pub struct RunInfo {
    pub report: sim::Report,
    pub clock_reads: u64,
    pub hash_instances: u64,
}

pub struct Ctx {
    widths: Vec<usize>,
    op: usize,
}

impl Ctx {
    /// Called by scenarios before every API operation: lets the simulator resize the pool
    /// between calls.
    pub fn op(&mut self) {
        if let Some(w) = self.widths.get(self.op) {
            sim::set_width(*w);
        }
        self.op += 1;
    }
}

thread_local! {
    static LAST_PANIC: RefCell<Option<String>> = RefCell::new(None);
    static PHASE: std::cell::Cell<&'static str> = std::cell::Cell::new("");
}

/// Reference code marks which step it is in, so that a panic can be attributed
/// (construction / forward+backward / optimizer step).
pub fn set_phase(phase: &'static str) {
    PHASE.with(|p| p.set(phase));
}

pub fn phase() -> &'static str {
    PHASE.with(|p| p.get())
}

/// Panic messages of combinations the library itself documents as unsupported.
pub fn documented_unsupported(msg: &str) -> bool {
    ["Invalid mul.", "Invalid sub.", "not implemented", "not supported", "not yet implemented", "Unsupported layer type", "Invalid add."]
        .iter()
        .any(|m| msg.contains(m))
}

/// Install a silent panic hook that remembers the message (and location) per thread.
pub fn install_panic_hook() {
    std::panic::set_hook(Box::new(|info| {
        let msg = if let Some(s) = info.payload().downcast_ref::<&str>() {
            s.to_string()
        } else if let Some(s) = info.payload().downcast_ref::<String>() {
            s.clone()
        } else {
            "<non-string panic payload>".to_string()
        };
        let loc = info
            .location()
            .map(|l| {
                let f = l.file();
                let f = f.rsplit('/').next().unwrap_or(f);
                format!(" @{}:{}", f, l.line())
            })
            .unwrap_or_default();
        LAST_PANIC.with(|p| *p.borrow_mut() = Some(format!("{}{}", msg, loc)));
    }));
}

pub fn take_panic() -> String {
    LAST_PANIC.with(|p| p.borrow_mut().take()).unwrap_or_else(|| "<panic>".to_string())
}

/// First line of a panic message, without the source location (locations move when the
/// library is edited; the message identifies the panic for comparison purposes).
pub fn panic_class(msg: &str) -> String {
    let first = msg.lines().next().unwrap_or("");
    let first = match first.rfind(" @") {
        Some(i) => &first[..i],
        None => first,
    };
    first.chars().take(120).collect()
}

pub fn run_env<T>(env: &Env, f: impl FnOnce(&mut Ctx) -> T) -> (Result<T, String>, RunInfo) {
    neurons::verif::set_clock(Some(env.clock));
    neurons::verif::set_hash_seed(env.hash_seed);
    sim::begin(sim::Config {
        width: env.width,
        policy: env.policy.to_sim(),
        seed: env.sched_seed,
        replay: env.trace.as_ref().map(|t| {
            t.iter().map(|(k, n, c)| sim::Decision { kind: *k, n: *n, choice: *c }).collect()
        }),
        inside: env.inside,
    });
    let mut ctx = Ctx { widths: env.widths.clone(), op: 0 };
    let result = catch_unwind(AssertUnwindSafe(|| f(&mut ctx)));
    let result = result.map_err(|_| take_panic());
    // `end()` may run deferred detached jobs of the program under test.
    let report = match catch_unwind(AssertUnwindSafe(sim::end)) {
        Ok(r) => r,
        Err(_) => {
            let _ = take_panic();
            sim::begin(sim::Config::sequential());
            sim::end()
        }
    };
    let info = RunInfo {
        report,
        clock_reads: neurons::verif::clock_reads(),
        hash_instances: neurons::verif::hash_instances(),
    };
    neurons::verif::set_clock(None);
    (result, info)
}

/// The same environment, but replaying exactly the decisions that `info` recorded.
pub fn to_replay(env: &Env, info: &RunInfo) -> Env {
    let mut e = env.clone();
    e.trace = Some(info.report.trace.iter().map(|d| (d.kind, d.n, d.choice)).collect());
    e.lenient = false;
    e
}

/// A replay divergence is a harness error unless the environment is a (lenient)
/// minimisation candidate.
pub fn divergence(env: &Env, info: &RunInfo) -> Option<String> {
    if env.lenient {
        None
    } else {
        info.report.divergence.clone()
    }
}

/// Smaller variants of a pinned environment (towards the sequential schedule, a narrow
/// pool, the default hash seed).
pub fn shrink_env(env: &Env) -> Vec<Env> {
    let mut out = Vec::new();
    if let Some(t) = &env.trace {
        let n = t.len();
        let nonzero = t.iter().filter(|d| d.2 != 0).count();
        if nonzero > 0 {
            let mut cuts = vec![0usize, n / 4, n / 2, 3 * n / 4];
            cuts.dedup();
            for c in cuts {
                if c < n && t[c..].iter().any(|d| d.2 != 0) {
                    let mut e = env.clone();
                    e.trace = Some(t[..c].to_vec());
                    e.lenient = true;
                    out.push(e);
                }
            }
            let mut block = n / 2;
            while block >= 1 {
                let mut start = 0;
                while start < n {
                    let end = (start + block).min(n);
                    if t[start..end].iter().any(|d| d.2 != 0) {
                        let mut e = env.clone();
                        let mut tt = t.clone();
                        for d in tt[start..end].iter_mut() {
                            d.2 = 0;
                        }
                        e.trace = Some(tt);
                        e.lenient = true;
                        out.push(e);
                    }
                    start = end;
                }
                if block == 1 || out.len() > 64 {
                    break;
                }
                block /= 2;
            }
        }
    }
    if env.width > 2 {
        let mut e = env.clone();
        e.width = 2;
        e.lenient = true;
        out.push(e);
    }
    if !env.widths.is_empty() {
        let mut e = env.clone();
        e.widths.clear();
        e.lenient = true;
        out.push(e);
    }
    if env.hash_seed != 0 {
        let mut e = env.clone();
        e.hash_seed = 0;
        e.lenient = true;
        out.push(e);
    }
    if env.inside {
        let mut e = env.clone();
        e.inside = false;
        e.lenient = true;
        out.push(e);
    }
    out
}
