//! SplitMix64: the only source of randomness in the harness. One stream per simulated run,
//! seeded from (VERIF_SEED, property id, run index); never touched by logging.

#[derive(Clone, Debug)]
pub struct Rng {
    state: u64,
}

pub fn mix64(mut z: u64) -> u64 {
    z = z.wrapping_add(0x9E37_79B9_7F4A_7C15);
    z = (z ^ (z >> 30)).wrapping_mul(0xBF58_476D_1CE4_E5B9);
    z = (z ^ (z >> 27)).wrapping_mul(0x94D0_49BB_1331_11EB);
    z ^ (z >> 31)
}

pub fn hash_str(s: &str) -> u64 {
    let mut h: u64 = 0xcbf2_9ce4_8422_2325;
    for b in s.bytes() {
        h = (h ^ b as u64).wrapping_mul(0x0000_0100_0000_01B3);
    }
    h
}

impl Rng {
    pub fn new(seed: u64) -> Rng {
        Rng { state: seed }
    }

    pub fn for_run(verif_seed: u64, property: &str, run: u64) -> Rng {
        Rng::new(mix64(verif_seed ^ mix64(hash_str(property)) ^ mix64(run.wrapping_mul(0x2545_F491_4F6C_DD1D))))
    }

    pub fn next_u64(&mut self) -> u64 {
        self.state = self.state.wrapping_add(0x9E37_79B9_7F4A_7C15);
        let mut z = self.state;
        z = (z ^ (z >> 30)).wrapping_mul(0xBF58_476D_1CE4_E5B9);
        z = (z ^ (z >> 27)).wrapping_mul(0x94D0_49BB_1331_11EB);
        z ^ (z >> 31)
    }

    /// uniform in 0..n (n >= 1)
    pub fn below(&mut self, n: usize) -> usize {
        (self.next_u64() % n.max(1) as u64) as usize
    }

    /// uniform in lo..=hi
    pub fn range(&mut self, lo: usize, hi: usize) -> usize {
        lo + self.below(hi - lo + 1)
    }

    /// uniform in [0,1)
    pub fn unit(&mut self) -> f32 {
        (self.next_u64() >> 40) as f32 / (1u64 << 24) as f32
    }

    pub fn uniform(&mut self, lo: f32, hi: f32) -> f32 {
        lo + (hi - lo) * self.unit()
    }

    pub fn chance(&mut self, p: f32) -> bool {
        self.unit() < p
    }

    pub fn pick<T: Clone>(&mut self, items: &[T]) -> T {
        items[self.below(items.len())].clone()
    }
}
