//! Seeded workload generation (swarm style): first draw which features a run may use at
//! all, then a configuration inside those switches. Networks are tiny so that a run costs
//! microseconds; values are random non-integers (integers hide non-associativity).

use crate::cfg::*;
use crate::rng::Rng;

thread_local! {
    static SCALE: std::cell::Cell<bool> = std::cell::Cell::new(false);
}

/// Called first by every property's `generate`: draws whether this case belongs to the
/// *scale stratum* (hundreds of samples, wide dense layers, long histories, many loops).
/// About one case in seventy; such cases cost 100-1000x a normal one.
pub fn begin_case(rng: &mut Rng) -> bool {
    let scale = rng.chance(0.015);
    SCALE.with(|s| s.set(scale));
    scale
}

pub fn scale() -> bool {
    SCALE.with(|s| s.get())
}

#[derive(Clone, Debug)]
pub struct GenOpts {
    pub image: bool,
    pub conv: bool,
    pub deconv: bool,
    pub maxpool: bool,
    pub feedback: bool,
    pub connect: bool,
    pub loopback: bool,
    pub dropout: bool,
    pub softmax: bool,
    pub stateful_optimizers: bool,
    pub all_objectives: bool,
    pub max_hidden: usize,
}

impl GenOpts {
    pub fn swarm(rng: &mut Rng) -> GenOpts {
        GenOpts {
            image: rng.chance(0.6),
            conv: rng.chance(0.7),
            deconv: rng.chance(0.4),
            maxpool: rng.chance(0.5),
            feedback: rng.chance(0.45),
            connect: rng.chance(0.4),
            loopback: rng.chance(0.3),
            dropout: rng.chance(0.4),
            softmax: rng.chance(0.3),
            stateful_optimizers: rng.chance(0.75),
            all_objectives: rng.chance(0.5),
            max_hidden: rng.range(0, 3),
        }
    }
}

const HIDDEN_ACTS: [Act; 5] = [Act::ReLU, Act::LeakyReLU, Act::Sigmoid, Act::Tanh, Act::Linear];

fn act(rng: &mut Rng) -> Act {
    rng.pick(&HIDDEN_ACTS)
}

fn dropout(rng: &mut Rng, opts: &GenOpts) -> Option<f32> {
    if opts.dropout && rng.chance(0.5) {
        Some(rng.pick(&[0.3f32, 0.5, 0.8]))
    } else {
        None
    }
}

fn pair(rng: &mut Rng, lo: usize, hi: usize) -> (usize, usize) {
    if rng.chance(0.6) {
        let k = rng.range(lo, hi);
        (k, k)
    } else {
        (rng.range(lo, hi), rng.range(lo, hi))
    }
}

const MAX_ELEMS: usize = 200;

fn gen_conv(rng: &mut Rng, opts: &GenOpts, input: ShapeCfg) -> Option<LayerCfg> {
    for _ in 0..8 {
        let l = LayerCfg::Conv {
            // mostly 1-3 filters; one layer in six has 5-8 (parallel-over-filters code paths
            // only split differently from about five items on)
            filters: if rng.chance(0.17) { rng.range(5, 8) } else { rng.range(1, 3) },
            kernel: pair(rng, 1, 3),
            stride: pair(rng, 1, 2),
            padding: pair(rng, 0, 1),
            dilation: if rng.chance(0.25) { pair(rng, 1, 2) } else { (1, 1) },
            act: act(rng),
            dropout: dropout(rng, opts),
        };
        if let Some(o) = l.output(input) {
            if o.count() <= MAX_ELEMS && o.count() >= 1 {
                return Some(l);
            }
        }
    }
    None
}

fn gen_deconv(rng: &mut Rng, opts: &GenOpts, input: ShapeCfg) -> Option<LayerCfg> {
    for _ in 0..8 {
        let l = LayerCfg::Deconv {
            filters: if rng.chance(0.2) { rng.range(5, 8) } else { rng.range(1, 2) },
            kernel: pair(rng, 1, 3),
            stride: pair(rng, 1, 2),
            padding: pair(rng, 0, 1),
            act: act(rng),
            dropout: dropout(rng, opts),
        };
        if let Some(o) = l.output(input) {
            if o.count() <= MAX_ELEMS && o.count() >= 1 {
                return Some(l);
            }
        }
    }
    None
}

fn gen_maxpool(rng: &mut Rng, input: ShapeCfg) -> Option<LayerCfg> {
    for _ in 0..6 {
        let l = LayerCfg::Maxpool { kernel: pair(rng, 1, 3), stride: pair(rng, 1, 2) };
        if let Some(o) = l.output(input) {
            if o.count() >= 1 {
                return Some(l);
            }
        }
    }
    None
}

pub const TRAINABLE_ACCS: [Acc; 4] = [Acc::Add, Acc::Subtract, Acc::Multiply, Acc::Mean];
pub const ALL_ACCS: [Acc; 5] = [Acc::Add, Acc::Subtract, Acc::Multiply, Acc::Overwrite, Acc::Mean];

/// A feedback block whose layer list maps `input` to the same shape.
pub fn gen_feedback(rng: &mut Rng, opts: &GenOpts, input: ShapeCfg, max_loops: usize) -> Option<LayerCfg> {
    // a block maps its input width onto itself `loops` times: quadratic in the width
    if input.count() > 130 {
        return None;
    }
    let mut layers = Vec::new();
    // many loops or a wide block, not both (cost = loops x width^2 per sample and pass)
    let loops = if scale() && input.count() <= 40 && rng.chance(0.5) { rng.range(6, 12) } else { rng.range(1, max_loops) };
    let inskips = rng.chance(0.5);
    // output skips need at least one earlier repetition (the library averages over an
    // empty list otherwise)
    let outskips = loops >= 2 && rng.chance(0.5);
    let skips = inskips || outskips;
    match input {
        ShapeCfg::Flat(n) => {
            if rng.chance(0.5) {
                // The library's block backward pass adds skip gradients taken one layer
                // off; with inner layers of different widths that is a shape panic, so
                // blocks that will carry skips keep one width throughout.
                let m = if skips && loops >= 2 { n } else { rng.range(1, 5) };
                layers.push(LayerCfg::Dense { out: m, act: act(rng), bias: rng.chance(0.5), dropout: dropout(rng, opts) });
            }
            layers.push(LayerCfg::Dense { out: n, act: act(rng), bias: rng.chance(0.5), dropout: dropout(rng, opts) });
        }
        ShapeCfg::Image(c, _, _) => {
            let count = rng.range(1, 2);
            for _ in 0..count {
                let l = match rng.below(3) {
                    0 => LayerCfg::Conv {
                        filters: c,
                        kernel: (3, 3),
                        stride: (1, 1),
                        padding: (1, 1),
                        dilation: (1, 1),
                        act: act(rng),
                        dropout: dropout(rng, opts),
                    },
                    1 => LayerCfg::Conv {
                        filters: c,
                        kernel: (1, 1),
                        stride: (1, 1),
                        padding: (0, 0),
                        dilation: (1, 1),
                        act: act(rng),
                        dropout: dropout(rng, opts),
                    },
                    _ => LayerCfg::Deconv {
                        filters: c,
                        kernel: (3, 3),
                        stride: (1, 1),
                        padding: (1, 1),
                        act: act(rng),
                        dropout: dropout(rng, opts),
                    },
                };
                layers.push(l);
            }
        }
    }
    let block = LayerCfg::Feedback {
        layers,
        loops,
        inskips,
        outskips,
        acc: rng.pick(&TRAINABLE_ACCS),
    };
    if block.output(input) == Some(input) {
        Some(block)
    } else {
        None
    }
}

pub fn gen_optimizer(rng: &mut Rng, stateful: bool) -> Option<OptCfg> {
    let decay = |rng: &mut Rng| if rng.chance(0.4) { Some(rng.pick(&[0.01f32, 0.1, 0.001])) } else { None };
    let lr = rng.pick(&[0.001f32, 0.01, 0.05, 0.1, 0.3]);
    if !stateful {
        return if rng.chance(0.3) { None } else { Some(OptCfg::SGD { lr, decay: decay(rng) }) };
    }
    Some(match rng.below(5) {
        0 => OptCfg::SGD { lr, decay: decay(rng) },
        1 => OptCfg::SGDM {
            lr,
            momentum: rng.pick(&[0.0f32, 0.5, 0.9]),
            dampening: rng.pick(&[0.0f32, 0.1, 0.5]),
            decay: decay(rng),
        },
        2 => OptCfg::Adam {
            lr,
            beta1: rng.pick(&[0.9f32, 0.8, 0.0]),
            beta2: rng.pick(&[0.999f32, 0.99, 0.0]),
            epsilon: rng.pick(&[1e-8f32, 1e-6, 0.0]),
            decay: decay(rng),
        },
        3 => OptCfg::AdamW {
            lr,
            beta1: rng.pick(&[0.9f32, 0.8]),
            beta2: rng.pick(&[0.999f32, 0.99]),
            epsilon: rng.pick(&[1e-8f32, 1e-6]),
            decay: rng.pick(&[0.01f32, 0.1, 0.0]),
        },
        _ => OptCfg::RMSprop {
            lr,
            alpha: rng.pick(&[0.99f32, 0.9, 0.0]),
            epsilon: rng.pick(&[1e-8f32, 1e-6]),
            decay: decay(rng),
            momentum: if rng.chance(0.5) { Some(rng.pick(&[0.5f32, 0.9])) } else { None },
            centered: rng.chance(0.4),
        },
    })
}

pub const ALL_OBJECTIVES: [Obj; 7] = [
    Obj::AE,
    Obj::MAE,
    Obj::MSE,
    Obj::RMSE,
    Obj::CrossEntropy,
    Obj::BinaryCrossEntropy,
    Obj::KLDivergence,
];

/// A network ending in a dense layer.
pub fn gen_net(rng: &mut Rng, opts: &GenOpts) -> NetCfg {
    let input = if opts.image && (opts.conv || opts.deconv || opts.maxpool) {
        ShapeCfg::Image(rng.range(1, 2), rng.range(3, 6), rng.range(3, 6))
    } else {
        ShapeCfg::Flat(if scale() && rng.chance(0.4) { rng.pick(&[30usize, 65, 100, 100, 1024, 2100, 4100, 8200, 16500]) } else { rng.pick(&[2usize, 3, 4, 5, 9]) })
    };
    let mut layers: Vec<LayerCfg> = Vec::new();
    let mut cur = input;
    let hidden = opts.max_hidden;
    for _ in 0..hidden {
        let is_image = matches!(cur, ShapeCfg::Image(..));
        let square = match cur {
            ShapeCfg::Flat(n) => n == 4 || n == 9 || n == 16,
            _ => true,
        };
        let mut options: Vec<u8> = Vec::new();
        let first = layers.is_empty();
        // the library wants a spatial first layer for image inputs and refuses a spatial
        // first layer for flat inputs
        if (is_image || square) && !(first && !is_image) {
            if opts.conv {
                options.push(0);
                options.push(0);
            }
            if opts.deconv {
                options.push(1);
            }
            if opts.maxpool {
                options.push(2);
            }
        }
        if opts.feedback {
            options.push(3);
        }
        if !(first && is_image) || options.is_empty() {
            options.push(4); // dense
        }
        let layer = match rng.pick(&options) {
            0 => gen_conv(rng, opts, cur),
            1 => gen_deconv(rng, opts, cur),
            2 => gen_maxpool(rng, cur),
            3 => gen_feedback(rng, opts, cur, 5),
            _ => Some(LayerCfg::Dense {
                // scale stratum: wide layers, and now and then a very wide one (inner products
                // over more than a thousand terms); never two very wide layers in a row
                out: if scale() && cur.count() <= 130 && rng.chance(0.6) {
                    if cur.count() <= 9 && rng.chance(0.12) {
                        // huge: inner products over 4096 / 8192 / 16384 and more terms (the
                        // lengths at which a length-thresholded parallel reduction starts to
                        // split, to depend on the pool width, to depend on steals); only
                        // between narrow neighbours, so the layer stays cheap
                        rng.pick(&[4096usize, 4100, 8192, 8200, 16384, 16500])
                    } else if rng.chance(0.2) {
                        rng.pick(&[1024usize, 1100, 2048, 2100])
                    } else {
                        rng.pick(&[16usize, 25, 32, 48, 64, 65, 70, 100, 130])
                    }
                } else {
                    rng.pick(&[1usize, 2, 3, 4, 4, 5, 9])
                },
                act: act(rng),
                bias: rng.chance(0.6),
                dropout: dropout(rng, opts),
            }),
        };
        if let Some(l) = layer {
            if let Some(o) = l.output(cur) {
                cur = o;
                layers.push(l);
            }
        }
    }
    if layers.is_empty() && matches!(input, ShapeCfg::Image(..)) {
        // an image network cannot start with the final dense layer
        let l = gen_conv(rng, opts, cur).unwrap_or(LayerCfg::Conv {
            filters: 1,
            kernel: (1, 1),
            stride: (1, 1),
            padding: (0, 0),
            dilation: (1, 1),
            act: Act::Tanh,
            dropout: None,
        });
        layers.push(l);
    }
    // an image block that feeds a dense layer is flattened; its output skips then meet a
    // flat gradient in the backward pass (shape panic in the library)
    for i in 0..layers.len() {
        let next_dense = i + 1 == layers.len() || matches!(layers[i + 1], LayerCfg::Dense { .. });
        if let LayerCfg::Feedback { layers: inner, inskips, outskips, .. } = &mut layers[i] {
            if next_dense && !matches!(inner[0], LayerCfg::Dense { .. }) {
                *outskips = false;
                *inskips = false;
            }
        }
    }
    let softmax = opts.softmax;
    let out = if softmax { rng.range(2, 4) } else { rng.range(1, 4) };
    layers.push(LayerCfg::Dense {
        out,
        act: if softmax { Act::Softmax } else { act(rng) },
        bias: rng.chance(0.6),
        dropout: None,
    });

    let mut net = NetCfg::plain(input, layers);
    let shapes = net.shapes().expect("generator produced layers that do not fit");

    // skip connections between layer inputs with equal element counts
    if opts.connect {
        let mut cands = Vec::new();
        for from in 0..net.layers.len() {
            if matches!(net.layers[from], LayerCfg::Maxpool { .. }) {
                continue;
            }
            for to in from + 1..net.layers.len() {
                if shapes[from].count() == shapes[to].count() {
                    cands.push((from, to));
                }
            }
        }
        let want = rng.range(1, 2);
        for _ in 0..want {
            if cands.is_empty() {
                break;
            }
            let c = cands.remove(rng.below(cands.len()));
            // the library keeps one source per target; a second connection into the same
            // target is outside what we generate
            if net.connects.iter().all(|(_, t)| *t != c.1) {
                net.connects.push(c);
            }
        }
        net.skip_acc = rng.pick(&ALL_ACCS);
    }

    // loop connections: output of `outof` back into `into`, shapes equal, no feedback block
    if opts.loopback {
        let mut cands = Vec::new();
        for into in 0..net.layers.len() {
            for outof in into..net.layers.len() {
                let inner_ok = net.layers[into..=outof]
                    .iter()
                    .all(|l| !matches!(l, LayerCfg::Feedback { .. }));
                // shapes as the library records them: dense layers are flat on both
                // sides, spatial layers are images on both sides
                let lib_in = match net.layers[into] {
                    LayerCfg::Dense { .. } => ShapeCfg::Flat(shapes[into].count()),
                    _ => match shapes[into] {
                        ShapeCfg::Flat(n) => {
                            let r = (n as f32).sqrt() as usize;
                            ShapeCfg::Image(1, r, r)
                        }
                        s => s,
                    },
                };
                let lib_out = shapes[outof + 1];
                if inner_ok && lib_in == lib_out {
                    cands.push((outof, into));
                }
            }
        }
        if !cands.is_empty() {
            let (outof, into) = rng.pick(&cands);
            net.loopbacks.push((outof, into, rng.range(1, 3), rng.chance(0.4)));
            net.loop_acc = rng.pick(&ALL_ACCS);
            net.loop_scale = rng.below(3) as u8;
        }
    }

    // the builder's set_activation path: re-set the activation of a plain hidden layer
    if rng.chance(0.1) && net.layers.len() >= 2 {
        let i = rng.below(net.layers.len() - 1);
        if matches!(net.layers[i], LayerCfg::Dense { .. } | LayerCfg::Conv { .. } | LayerCfg::Deconv { .. }) {
            net.set_activations.push((i, act(rng)));
        }
    }
    // ... and of the output layer, across the soft-max boundary as often as not: whatever
    // the network caches about its output layer when the layer is added is stale afterwards
    if rng.chance(0.06) {
        net.built_last_act = Some(if softmax {
            act(rng)
        } else if rng.chance(0.5) {
            Act::Softmax
        } else {
            act(rng)
        });
    }
    net.optimizer = gen_optimizer(rng, opts.stateful_optimizers);
    net.objective = if softmax {
        if rng.chance(0.7) { Obj::CrossEntropy } else { rng.pick(&[Obj::MSE, Obj::KLDivergence]) }
    } else if opts.all_objectives {
        rng.pick(&ALL_OBJECTIVES)
    } else {
        rng.pick(&[Obj::MSE, Obj::MAE, Obj::RMSE, Obj::AE])
    };
    net.clamp = if rng.chance(0.25) { Some((-1.0, 1.0)) } else { None };
    net
}

#[derive(serde::Serialize, serde::Deserialize, Clone, Debug, PartialEq, Default)]
pub struct Data {
    pub x: Vec<Vec<f32>>,
    pub y: Vec<Vec<f32>>,
}

impl Data {
    pub fn len(&self) -> usize {
        self.x.len()
    }
}

pub fn gen_input(rng: &mut Rng, net: &NetCfg) -> Vec<f32> {
    (0..net.input.count()).map(|_| rng.uniform(-1.0, 1.0)).collect()
}

pub fn gen_target(rng: &mut Rng, net: &NetCfg, out: usize) -> Vec<f32> {
    if net.last_softmax() || net.objective == Obj::CrossEntropy {
        if out >= 2 {
            let hot = rng.below(out);
            return (0..out).map(|i| if i == hot { 1.0 } else { 0.0 }).collect();
        }
        return vec![rng.uniform(0.05, 0.95)];
    }
    match net.objective {
        Obj::BinaryCrossEntropy => (0..out)
            .map(|_| if rng.chance(0.5) { rng.uniform(0.05, 0.95) } else if rng.chance(0.5) { 1.0 } else { 0.0 })
            .collect(),
        Obj::KLDivergence => {
            let v: Vec<f32> = (0..out).map(|_| rng.uniform(0.05, 1.0)).collect();
            let s: f32 = v.iter().sum();
            v.iter().map(|x| x / s).collect()
        }
        _ => (0..out).map(|_| rng.uniform(-1.0, 1.0)).collect(),
    }
}

pub fn gen_data(rng: &mut Rng, net: &NetCfg, n: usize) -> Data {
    let out = net.output_count().unwrap_or(1);
    let mut d = Data::default();
    // One data set in seven contains "blank" samples (all-zero input, all-zero target):
    // through bias-free layers they give an exactly zero loss and exactly zero gradients,
    // the corner where shortcuts such as "nothing to update" hide. Another one in seven
    // repeats a sample (identical per-sample results inside one group).
    let blanks = rng.chance(0.15) && !net.objective.probabilistic() && !net.last_softmax();
    let repeats = rng.chance(0.15);
    for i in 0..n {
        if blanks && rng.chance(0.45) {
            d.x.push(vec![0.0; net.input.count()]);
            d.y.push(vec![0.0; out]);
        } else if repeats && i > 0 && rng.chance(0.4) {
            let j = rng.below(i);
            d.x.push(d.x[j].clone());
            d.y.push(d.y[j].clone());
        } else {
            d.x.push(gen_input(rng, net));
            d.y.push(gen_target(rng, net, out));
        }
    }
    d
}

/// Sizes biased towards chunk boundaries of the parallel evaluation paths.
pub fn eval_size(rng: &mut Rng) -> usize {
    if scale() {
        let r = rng.range(300, 1200);
        return rng.pick(&[r, r, 640, 641, 1023, 1024]);
    }
    match rng.below(10) {
        0 => 1,
        1 => rng.range(2, 8),
        2 => 63,
        3 => 64,
        4 => 65,
        5 => rng.pick(&[127usize, 128, 129]),
        6 => rng.range(66, 200),
        7 => rng.pick(&[31usize, 32, 33]),
        _ => rng.range(2, 70),
    }
}

/// Whether some layer boundary of the network is very wide (>= 1000 elements): such
/// networks get moderate data sets and short histories, they are expensive per sample.
pub fn very_wide(net: &NetCfg) -> bool {
    net.shapes().map(|v| v.iter().any(|s| s.count() >= 1000)).unwrap_or(false)
}
