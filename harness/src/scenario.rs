//! The common training/evaluation scenario and what is observed from it (bit patterns).

use neurons::{network, tensor};
use serde::{Deserialize, Serialize};

use crate::cfg::*;
use crate::exec::Ctx;
use crate::gen::Data;

#[derive(Serialize, Deserialize, Clone, Debug, PartialEq)]
pub struct Scenario {
    pub net: NetCfg,
    pub train: Data,
    pub batch: usize,
    pub epochs: i32,
    /// validation data handed to `learn` (with the early-stopping tolerance)
    pub val: Option<Data>,
    pub early_tol: i32,
    /// data for a `validate` call after `learn`
    pub eval: Option<Data>,
    pub acc_tol: f32,
    /// inputs for a `predict_batch` call after that
    pub pred: Vec<Vec<f32>>,
    /// initial parameters written through the hook right after construction (steering)
    #[serde(default)]
    pub init_params: Option<Vec<Vec<f32>>>,
    /// the `print` argument of learn (progress output every n-th epoch)
    #[serde(default)]
    pub print: Option<i32>,
    /// `k >= 2`: k networks of this configuration are built one after the other and then
    /// trained / evaluated as the tasks of one parallel loop (a hyper-parameter sweep inside
    /// one pool); a worker that waits inside one network's `learn` may run another
    /// network's whole `learn` nested in that wait
    #[serde(default)]
    pub sweep: usize,
}

impl Scenario {
    /// Build the network and apply the initial parameters, if any.
    pub fn build(&self) -> network::Network {
        let mut net = self.net.build();
        if let Some(p) = &self.init_params {
            set_parameters(&mut net, p);
        }
        net
    }
}

pub fn tensors(net: &NetCfg, xs: &[Vec<f32>]) -> Vec<tensor::Tensor> {
    xs.iter().map(|x| net.input_tensor(x)).collect()
}

pub fn targets(ys: &[Vec<f32>]) -> Vec<tensor::Tensor> {
    ys.iter().map(|y| tensor::Tensor::single(y.clone())).collect()
}

/// Everything a user can observe from the scenario, as bit patterns.
#[derive(Clone, Debug, PartialEq, Default)]
pub struct Obs {
    pub initial: Vec<Vec<u32>>,
    pub train_loss: Vec<u32>,
    pub val_loss: Vec<u32>,
    pub val_acc: Vec<u32>,
    pub params: Vec<Vec<u32>>,
    pub validate: Option<(u32, u32)>,
    pub predictions: Vec<Vec<u32>>,
    pub flags_after: Vec<bool>,
    /// sweep only: this network's task panicked (class of the message)
    pub panic: Option<String>,
    /// sweep only: the observations of networks 1.. (this one is network 0)
    pub siblings: Vec<Obs>,
}

fn first_diff_vec(name: &str, a: &[u32], b: &[u32]) -> Option<String> {
    if a.len() != b.len() {
        return Some(format!("{}: length {} vs {}", name, a.len(), b.len()));
    }
    for (i, (x, y)) in a.iter().zip(b.iter()).enumerate() {
        if x != y {
            return Some(format!(
                "{}[{}]: {:e} (0x{:08x}) vs {:e} (0x{:08x})",
                name,
                i,
                f32::from_bits(*x),
                x,
                f32::from_bits(*y),
                y
            ));
        }
    }
    None
}

fn first_diff_nested(name: &str, a: &[Vec<u32>], b: &[Vec<u32>]) -> Option<String> {
    if a.len() != b.len() {
        return Some(format!("{}: count {} vs {}", name, a.len(), b.len()));
    }
    for (i, (x, y)) in a.iter().zip(b.iter()).enumerate() {
        if let Some(d) = first_diff_vec(&format!("{}[{}]", name, i), x, y) {
            return Some(d);
        }
    }
    None
}

impl Obs {
    pub fn digest(&self) -> u64 {
        let mut h: u64 = 0xcbf2_9ce4_8422_2325;
        let mut eat = |x: u64| h = (h ^ x).wrapping_mul(0x0000_0100_0000_01B3);
        for v in self.initial.iter().chain(self.params.iter()).chain(self.predictions.iter()) {
            eat(v.len() as u64);
            v.iter().for_each(|x| eat(*x as u64));
        }
        for v in [&self.train_loss, &self.val_loss, &self.val_acc] {
            eat(v.len() as u64);
            v.iter().for_each(|x| eat(*x as u64));
        }
        if let Some((a, b)) = self.validate {
            eat(a as u64);
            eat(b as u64);
        }
        self.flags_after.iter().for_each(|f| eat(*f as u64));
        if let Some(p) = &self.panic {
            eat(crate::rng::hash_str(p));
        }
        for o in &self.siblings {
            eat(o.digest());
        }
        h
    }

    /// (field, description) of the first difference, in the order a user would see it.
    pub fn diff(&self, other: &Obs) -> Option<(&'static str, String)> {
        if let Some(d) = first_diff_nested("initial_parameters", &self.initial, &other.initial) {
            return Some(("initial_parameters", d));
        }
        if let Some(d) = first_diff_vec("train_loss", &self.train_loss, &other.train_loss) {
            return Some(("train_loss", d));
        }
        if let Some(d) = first_diff_vec("val_loss", &self.val_loss, &other.val_loss) {
            return Some(("val_loss", d));
        }
        if let Some(d) = first_diff_vec("val_acc", &self.val_acc, &other.val_acc) {
            return Some(("val_acc", d));
        }
        if let Some(d) = first_diff_nested("parameters", &self.params, &other.params) {
            return Some(("parameters", d));
        }
        match (self.validate, other.validate) {
            (Some(a), Some(b)) if a != b => {
                return Some((
                    "validate",
                    format!(
                        "validate: ({:e}, {:e}) vs ({:e}, {:e})",
                        f32::from_bits(a.0),
                        f32::from_bits(a.1),
                        f32::from_bits(b.0),
                        f32::from_bits(b.1)
                    ),
                ))
            }
            (None, Some(_)) | (Some(_), None) => return Some(("validate", "validate: presence differs".into())),
            _ => {}
        }
        if let Some(d) = first_diff_nested("predict_batch", &self.predictions, &other.predictions) {
            return Some(("predict_batch", d));
        }
        if self.flags_after != other.flags_after {
            return Some(("training_flags", "training flags after the scenario differ".into()));
        }
        if self.panic != other.panic {
            return Some(("panic", format!("panic {:?} vs {:?}", self.panic, other.panic)));
        }
        if self.siblings.len() != other.siblings.len() {
            return Some(("sweep", "number of networks in the sweep differs".into()));
        }
        for (i, (a, b)) in self.siblings.iter().zip(other.siblings.iter()).enumerate() {
            if let Some((f, d)) = a.diff(b) {
                return Some((f, format!("network {} of the sweep: {}", i + 1, d)));
            }
        }
        None
    }
}

pub fn params_bits(net: &network::Network) -> Vec<Vec<u32>> {
    parameters(net).iter().map(|v| bits(v)).collect()
}

/// build -> learn -> validate -> predict_batch, one `ctx.op()` before each API call.
pub fn execute_full(sc: &Scenario, ctx: &mut Ctx) -> Obs {
    if sc.sweep >= 2 {
        return execute_sweep(sc, ctx);
    }
    ctx.op();
    let net = sc.build();
    execute_built(sc, net, Some(ctx))
}

/// A sweep: the networks are built first, in a fixed order (building reads the clock), and
/// then each one goes through learn -> validate -> predict_batch as one task of a parallel
/// loop over the networks. A panic of one task is that network's observation.
fn execute_sweep(sc: &Scenario, ctx: &mut Ctx) -> Obs {
    use rayon::prelude::*;
    ctx.op();
    let nets: Vec<network::Network> = (0..sc.sweep).map(|_| sc.build()).collect();
    ctx.op();
    let all: Vec<Obs> = nets
        .into_par_iter()
        .map(|net| match std::panic::catch_unwind(std::panic::AssertUnwindSafe(|| execute_built(sc, net, None))) {
            Ok(o) => o,
            Err(_) => Obs { panic: Some(crate::exec::panic_class(&crate::exec::take_panic())), ..Obs::default() },
        })
        .collect();
    let mut it = all.into_iter();
    let mut first = it.next().unwrap_or_default();
    first.siblings = it.collect();
    first
}

fn execute_built(sc: &Scenario, mut net: network::Network, mut ctx: Option<&mut Ctx>) -> Obs {
    let mut op = || {
        if let Some(c) = ctx.as_mut() {
            c.op();
        }
    };
    let mut obs = Obs::default();
    obs.initial = params_bits(&net);

    let xs = tensors(&sc.net, &sc.train.x);
    let ys = targets(&sc.train.y);
    let xr: Vec<&tensor::Tensor> = xs.iter().collect();
    let yr: Vec<&tensor::Tensor> = ys.iter().collect();
    let (vx, vy) = match &sc.val {
        Some(v) => (tensors(&sc.net, &v.x), targets(&v.y)),
        None => (Vec::new(), Vec::new()),
    };
    let vxr: Vec<&tensor::Tensor> = vx.iter().collect();
    let vyr: Vec<&tensor::Tensor> = vy.iter().collect();

    op();
    let validation = if sc.val.is_some() { Some((&vxr, &vyr, sc.early_tol)) } else { None };
    let (tl, vl, va) = net.learn(&xr, &yr, validation, sc.batch, sc.epochs, sc.print);
    obs.train_loss = bits(&tl);
    obs.val_loss = bits(&vl);
    obs.val_acc = bits(&va);
    obs.params = params_bits(&net);

    if let Some(e) = &sc.eval {
        let ex = tensors(&sc.net, &e.x);
        let ey = targets(&e.y);
        let exr: Vec<&tensor::Tensor> = ex.iter().collect();
        let eyr: Vec<&tensor::Tensor> = ey.iter().collect();
        op();
        let (l, a) = net.validate(&exr, &eyr, sc.acc_tol);
        obs.validate = Some((l.to_bits(), a.to_bits()));
    }

    if !sc.pred.is_empty() {
        let px = tensors(&sc.net, &sc.pred);
        let pxr: Vec<&tensor::Tensor> = px.iter().collect();
        op();
        let out = net.predict_batch(&pxr);
        obs.predictions = out.iter().map(|t| bits(&flat(t))).collect();
    }
    obs.flags_after = training_flags(&net);
    obs
}

fn halve(d: &Data) -> Option<Data> {
    if d.len() <= 1 {
        return None;
    }
    let n = (d.len() + 1) / 2;
    Some(Data { x: d.x[..n].to_vec(), y: d.y[..n].to_vec() })
}

fn drop_last(d: &Data) -> Option<Data> {
    if d.len() <= 1 {
        return None;
    }
    let n = d.len() - 1;
    Some(Data { x: d.x[..n].to_vec(), y: d.y[..n].to_vec() })
}

fn drop_first(d: &Data) -> Option<Data> {
    if d.len() <= 1 {
        return None;
    }
    Some(Data { x: d.x[1..].to_vec(), y: d.y[1..].to_vec() })
}

/// Structural shrinks of a network configuration that keep it well-formed.
pub fn shrink_net(net: &NetCfg) -> Vec<NetCfg> {
    let mut out = Vec::new();
    let out_count = net.output_count();
    let push = |out: &mut Vec<NetCfg>, n: NetCfg| {
        if n != *net && n.shapes().is_some() && n.output_count() == out_count {
            out.push(n);
        }
    };
    if !net.connects.is_empty() {
        let mut n = net.clone();
        n.connects.clear();
        push(&mut out, n);
        for i in 0..net.connects.len() {
            let mut n = net.clone();
            n.connects.remove(i);
            push(&mut out, n);
        }
    }
    if !net.set_activations.is_empty() {
        let mut n = net.clone();
        n.set_activations.clear();
        push(&mut out, n);
    }
    if net.built_last_act.is_some() {
        let mut n = net.clone();
        n.built_last_act = None;
        push(&mut out, n);
    }
    if !net.loopbacks.is_empty() {
        let mut n = net.clone();
        n.loopbacks.clear();
        push(&mut out, n);
        for i in 0..net.loopbacks.len() {
            if net.loopbacks[i].2 > 1 {
                let mut n = net.clone();
                n.loopbacks[i].2 = 1;
                push(&mut out, n);
            }
        }
    }
    // remove a hidden layer (indices in connects/loopbacks would dangle, so only when none)
    if net.connects.is_empty() && net.loopbacks.is_empty() && net.set_activations.is_empty() && net.layers.len() > 1 {
        for i in 0..net.layers.len() - 1 {
            let mut n = net.clone();
            n.layers.remove(i);
            push(&mut out, n);
        }
    }
    if net.has_dropout() {
        push(&mut out, net.without_dropout());
    }
    for (i, l) in net.layers.iter().enumerate() {
        match l {
            LayerCfg::Feedback { layers, loops, inskips, outskips, acc } => {
                for smaller in [1usize, loops / 2, loops - 1] {
                    if smaller >= 1 && smaller < *loops {
                        let mut n = net.clone();
                        n.layers[i] = LayerCfg::Feedback {
                            layers: layers.clone(),
                            loops: smaller,
                            inskips: *inskips,
                            outskips: *outskips,
                            acc: *acc,
                        };
                        push(&mut out, n);
                    }
                }
                if *inskips {
                    let mut n = net.clone();
                    n.layers[i] = LayerCfg::Feedback { layers: layers.clone(), loops: *loops, inskips: false, outskips: *outskips, acc: *acc };
                    push(&mut out, n);
                }
                if *outskips {
                    let mut n = net.clone();
                    n.layers[i] = LayerCfg::Feedback { layers: layers.clone(), loops: *loops, inskips: *inskips, outskips: false, acc: *acc };
                    push(&mut out, n);
                }
                if layers.len() > 1 {
                    for j in 0..layers.len() {
                        let mut inner = layers.clone();
                        inner.remove(j);
                        let mut n = net.clone();
                        n.layers[i] = LayerCfg::Feedback { layers: inner, loops: *loops, inskips: *inskips, outskips: *outskips, acc: *acc };
                        push(&mut out, n);
                    }
                }
                if *acc != Acc::Add {
                    let mut n = net.clone();
                    n.layers[i] = LayerCfg::Feedback { layers: layers.clone(), loops: *loops, inskips: *inskips, outskips: *outskips, acc: Acc::Add };
                    push(&mut out, n);
                }
            }
            LayerCfg::Dense { out: o, act, bias, dropout } => {
                if *bias {
                    let mut n = net.clone();
                    n.layers[i] = LayerCfg::Dense { out: *o, act: *act, bias: false, dropout: *dropout };
                    push(&mut out, n);
                }
                if *act != Act::Linear && *act != Act::Softmax {
                    let mut n = net.clone();
                    n.layers[i] = LayerCfg::Dense { out: *o, act: Act::Linear, bias: *bias, dropout: *dropout };
                    push(&mut out, n);
                }
            }
            _ => {}
        }
    }
    if net.optimizer.is_some() {
        let mut n = net.clone();
        n.optimizer = None;
        push(&mut out, n);
        if !matches!(net.optimizer, Some(OptCfg::SGD { .. })) {
            let mut n = net.clone();
            n.optimizer = Some(OptCfg::SGD { lr: 0.1, decay: None });
            push(&mut out, n);
        }
    }
    if net.clamp.is_some() {
        let mut n = net.clone();
        n.clamp = None;
        push(&mut out, n);
    }
    if net.objective != Obj::MSE && !net.last_softmax() {
        let mut n = net.clone();
        n.objective = Obj::MSE;
        push(&mut out, n);
    }
    if net.skip_acc != Acc::Add {
        let mut n = net.clone();
        n.skip_acc = Acc::Add;
        push(&mut out, n);
    }
    out
}

/// Smaller variants of a scenario, most aggressive first.
pub fn shrink_scenario(sc: &Scenario) -> Vec<Scenario> {
    let mut out = Vec::new();
    if sc.sweep >= 2 {
        let mut s = sc.clone();
        s.sweep = 0;
        out.push(s);
        if sc.sweep > 2 {
            let mut s = sc.clone();
            s.sweep -= 1;
            out.push(s);
        }
    }
    if sc.val.is_some() {
        let mut s = sc.clone();
        s.val = None;
        out.push(s);
    }
    if sc.eval.is_some() {
        let mut s = sc.clone();
        s.eval = None;
        out.push(s);
    }
    if !sc.pred.is_empty() {
        let mut s = sc.clone();
        s.pred.clear();
        out.push(s);
        if sc.pred.len() > 1 {
            let mut s = sc.clone();
            s.pred.truncate((sc.pred.len() + 1) / 2);
            out.push(s);
            let mut s = sc.clone();
            s.pred.pop();
            out.push(s);
        }
    }
    if sc.epochs > 1 {
        let mut s = sc.clone();
        s.epochs = 1;
        out.push(s);
        let mut s = sc.clone();
        s.epochs -= 1;
        out.push(s);
    }
    for f in [halve as fn(&Data) -> Option<Data>, drop_last, drop_first] {
        if let Some(d) = f(&sc.train) {
            let mut s = sc.clone();
            s.train = d;
            out.push(s);
        }
        if let Some(v) = &sc.val {
            if let Some(d) = f(v) {
                let mut s = sc.clone();
                s.val = Some(d);
                out.push(s);
            }
        }
        if let Some(v) = &sc.eval {
            if let Some(d) = f(v) {
                let mut s = sc.clone();
                s.eval = Some(d);
                out.push(s);
            }
        }
    }
    if sc.print.is_some() {
        let mut s = sc.clone();
        s.print = None;
        out.push(s);
    }
    if sc.batch > sc.train.len() + 1 {
        let mut s = sc.clone();
        s.batch = sc.train.len() + 1;
        out.push(s);
    }
    if sc.batch > 1 {
        let mut s = sc.clone();
        s.batch = 1;
        out.push(s);
        let mut s = sc.clone();
        s.batch -= 1;
        out.push(s);
    }
    for n in shrink_net(&sc.net) {
        // only nets with an unchanged input size keep the data valid
        if n.input == sc.net.input && sc.init_params.is_none() {
            let mut s = sc.clone();
            s.net = n;
            out.push(s);
        }
    }
    out
}

pub fn scenario_key(sc: &Scenario) -> u64 {
    let mut h = crate::rng::hash_str(&serde_json::to_string(&sc.net).unwrap_or_default());
    for v in [sc.train.len() as u64, sc.batch as u64, sc.epochs as u64, sc.val.as_ref().map(|d| d.len()).unwrap_or(0) as u64, sc.eval.as_ref().map(|d| d.len()).unwrap_or(0) as u64, sc.pred.len() as u64, sc.early_tol as u64] {
        h = crate::rng::mix64(h ^ v);
    }
    if let Some(x) = sc.train.x.first().and_then(|x| x.first()) {
        h = crate::rng::mix64(h ^ x.to_bits() as u64);
    }
    h
}

/// Probes about the shape of the workload (shared by several properties).
pub fn scenario_probes(sc: &Scenario, stats: &mut crate::core::Stats) {
    let n = sc.train.len();
    stats.probe("batch_gt_1", sc.batch > 1 && n > 1);
    stats.probe("last_group_partial", sc.batch < n && n % sc.batch != 0);
    stats.probe("batch_gt_n", sc.batch > n);
    stats.probe("batch_usize_max", sc.batch == usize::MAX);
    stats.probe("tolerance_i32_max", sc.val.is_some() && sc.early_tol == i32::MAX);
    let sizes: Vec<usize> = [sc.val.as_ref().map(|d| d.len()), sc.eval.as_ref().map(|d| d.len()), if sc.pred.is_empty() { None } else { Some(sc.pred.len()) }]
        .iter()
        .flatten()
        .cloned()
        .collect();
    stats.probe("eval_set_gt_chunk", sizes.iter().any(|s| *s > 64));
    stats.probe("eval_set_not_multiple", sizes.iter().any(|s| *s > 64 && *s % 64 != 0));
    stats.probe("with_validation", sc.val.is_some());
    stats.probe("print_some", sc.print.is_some());
    stats.probe("batch_ge_17", sc.batch >= 17 && n >= 17);
    stats.probe("group_ge_256", sc.batch >= 256 && n >= 256);
    stats.probe("sweep_of_networks_in_one_pool", sc.sweep >= 2);
    stats.probe("width_ge_8192", sc.net.shapes().map(|v| v.iter().any(|s| s.count() >= 8192)).unwrap_or(false));
    stats.probe("output_activation_reset", sc.net.built_last_act.is_some());
    stats.probe("scale_stratum", n >= 100 || sc.epochs >= 8 || sizes.iter().any(|s| *s >= 300));
    stats.probe("dropout_configured", sc.net.has_dropout());
    let mut fb3 = false;
    let mut kinds = [false; 5];
    for l in &sc.net.layers {
        match l {
            LayerCfg::Dense { .. } => kinds[0] = true,
            LayerCfg::Conv { .. } => kinds[1] = true,
            LayerCfg::Deconv { .. } => kinds[2] = true,
            LayerCfg::Maxpool { .. } => kinds[3] = true,
            LayerCfg::Feedback { loops, .. } => {
                kinds[4] = true;
                if *loops >= 3 {
                    fb3 = true;
                }
            }
        }
    }
    let widest = sc.net.shapes().map(|v| v.iter().map(|s| s.count()).max().unwrap_or(0)).unwrap_or(0);
    stats.probe("width_ge_1024", widest >= 1024);
    stats.probe("layer_conv", kinds[1]);
    stats.probe("layer_deconv", kinds[2]);
    stats.probe("layer_maxpool", kinds[3]);
    stats.probe("layer_feedback", kinds[4]);
    stats.probe("feedback_loops_ge_3", fb3);
    stats.probe("skip_connection", !sc.net.connects.is_empty());
    stats.probe("loop_connection", !sc.net.loopbacks.is_empty());
    let mut same_source = false;
    for (i, a) in sc.net.connects.iter().enumerate() {
        for b in sc.net.connects.iter().skip(i + 1) {
            if a.0 == b.0 {
                same_source = true;
            }
        }
    }
    stats.probe("same_source_skips", same_source);
    if let Some(o) = &sc.net.optimizer {
        stats.probe(&format!("optimizer_{}", o.kind()), true);
    } else {
        stats.probe("optimizer_default", true);
    }
}
