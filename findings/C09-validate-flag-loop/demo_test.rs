// Demonstration (public API only): the validation metrics learn() records for an epoch
// must be those of the dropout-free network, i.e. equal validate() called right after.
use neurons::{activation::Activation, network::Network, tensor};

#[test]
fn recorded_validation_loss_is_dropout_free() {
    let mut net = Network::new(tensor::Shape::Single(4));
    net.dense(9, Activation::Linear, false, None);
    net.dense(5, Activation::Linear, false, Some(0.5)); // dropout on the second dense layer
    net.dense(4, Activation::Linear, false, None);

    let x = tensor::Tensor::single(vec![0.31, -0.72, 0.55, 0.13]);
    let y = tensor::Tensor::single(vec![0.2, -0.4, 0.7, 0.1]);
    let vx = tensor::Tensor::single(vec![-0.44, 0.91, 0.27, -0.63]);
    let vy = tensor::Tensor::single(vec![0.5, 0.3, -0.2, 0.8]);

    let (_, val_loss, _) = net.learn(&vec![&x], &vec![&y], Some((&vec![&vx], &vec![&vy], 1000)), 1, 1, None);
    let (after, _) = net.validate(&[&vx], &[&vy], 1e-6);
    assert_eq!(
        val_loss[0].to_bits(),
        after.to_bits(),
        "learn() recorded validation loss {} for the only epoch, validate() right after gives {}",
        val_loss[0],
        after
    );
}
