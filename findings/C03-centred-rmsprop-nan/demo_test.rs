// Demonstration (public API only): centred RMSprop must not produce NaN for a constant,
// moderate gradient. The running variance `velocity - gradient_avg^2` is non-negative in
// exact arithmetic but rounds slightly below zero once both averages converge.
use neurons::{optimizer, tensor};

#[test]
fn centred_rmsprop_stays_finite_on_constant_gradient() {
    for (alpha, steps) in [(0.5f32, 100), (0.99f32, 3000)] {
        let mut opt = optimizer::RMSprop::create(0.01, alpha, 1e-8, None, None, true);
        opt.validate(vec![vec![vec![
            tensor::Tensor::single(vec![0.0; 1]),
            tensor::Tensor::single(vec![]),
        ]]]);
        let mut values = tensor::Tensor::single(vec![0.5]);
        for step in 1..=steps {
            let mut gradient = tensor::Tensor::single(vec![0.1]);
            opt.update(0, 0, false, step, &mut values, &mut gradient);
            let w = values.get_flat()[0];
            assert!(w.is_finite(), "alpha {}: parameter became {} at step {}", alpha, w, step);
        }
    }
}
