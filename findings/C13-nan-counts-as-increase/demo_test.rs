// Demonstration (public API only): learn() must stop early only if the validation loss
// strictly increased throughout the last `tolerance` recorded epochs. A NaN validation loss
// is not an increase, yet the stopping rule (`history[i] <= history[i + 1]` negated) treats
// every comparison with NaN as "increasing".
use neurons::{activation::Activation, network::Network, optimizer, tensor};

#[test]
fn early_stop_needs_a_strict_increase() {
    // y = w * x without bias; SGD with lr 2.5 on (x, y) = (1, 0) multiplies w by -4 per
    // epoch, so |w| overflows to infinity after ~65 epochs. The validation sample x = 0 then
    // predicts inf * 0 = NaN (its loss was the constant 1.0 before).
    let mut net = Network::new(tensor::Shape::Single(1));
    net.dense(1, Activation::Linear, false, None);
    net.set_optimizer(optimizer::SGD::create(2.5, None));

    let x = tensor::Tensor::single(vec![1.0]);
    let y = tensor::Tensor::single(vec![0.0]);
    let vx = tensor::Tensor::single(vec![0.0]);
    let vy = tensor::Tensor::single(vec![1.0]);
    let tolerance = 2;
    let budget = 100;
    // (If training runs on into a NaN *training* loss, learn panics as documented; that is
    // not an early stop and not what this demonstration is about.)
    let result = std::panic::catch_unwind(std::panic::AssertUnwindSafe(|| {
        net.learn(&vec![&x], &vec![&y], Some((&vec![&vx], &vec![&vy], tolerance)), 1, budget, None)
    }));
    let (train, val, _) = match result {
        Ok(r) => r,
        Err(_) => return,
    };

    let run = train.len();
    println!("ran {} of {} epochs; last validation losses {:?}", run, budget, &val[run.saturating_sub(4)..]);
    if run < budget as usize {
        let window = &val[run - tolerance as usize..];
        assert!(
            window.windows(2).all(|w| w[0] < w[1]),
            "stopped after {} of {} epochs although the last {} validation losses {:?} are not strictly increasing",
            run, budget, tolerance, window
        );
    }
}
