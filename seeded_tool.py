#!/usr/bin/env python3
"""Bookkeeping for seeded property-breaking changes (written by independent sub-agents).

  seeded_tool.py add <worktree> <property> <name> <demo test name> "<what it needs>"
      verifies, in the scratch worktree: the change compiles, the unedited lib suite passes
      with it, the demonstration fails with it and passes without it; then stores
      /verif/seeded/<name>/{patch.diff, demo.rs, meta.json}.
  seeded_tool.py add-benign <worktree> <property> <name> "<what changes>"   (property-preserving change)
  seeded_tool.py run-benign [<name> ...]     every quick check must exit 0 on these
  seeded_tool.py run [<name> ...] [--tier quick|thorough] [--all-props]
      applies each stored patch to a scratch copy of /repo/src (never to /repo), runs the
      matching check against it and records whether it was detected in meta.json.
"""
import json, os, shutil, subprocess, sys, time

ROOT = os.path.dirname(os.path.abspath(__file__))
SEEDED = ROOT + "/seeded"
ALL_PROPS = ["C03", "C04", "C05", "C09", "C10", "C12", "C13"]


def sh(cmd, cwd=None, env=None, timeout=3600):
    return subprocess.run(cmd, shell=True, cwd=cwd, env=env, stdout=subprocess.PIPE, stderr=subprocess.STDOUT, text=True, timeout=timeout)


def add(wt, prop, name, demo, needs):
    env = dict(os.environ, CARGO_NET_OFFLINE="true", CARGO_TARGET_DIR=wt + "/target")
    diff = sh("git diff -- src", cwd=wt).stdout
    assert diff.strip(), "no src change in worktree"
    features = "--features verif" if "verif::" in open(f"{wt}/tests/{demo}.rs").read() or "verif_" in open(f"{wt}/tests/{demo}.rs").read() else ""
    demo_cmd = f"cargo test --offline {features} --test {demo}"
    with_change = sh(demo_cmd, cwd=wt, env=env)
    lib = sh("cargo test --offline --lib", cwd=wt, env=env)
    lib_line = next((l for l in lib.stdout.splitlines() if l.startswith("test result:")), "")
    # `git stash` is shared by all worktrees of one repository: reverse-apply a saved patch instead
    open(wt + "/target/seeded-src.patch", "w").write(diff)
    r = sh("git apply -R target/seeded-src.patch", cwd=wt)
    assert r.returncode == 0, r.stdout
    try:
        without = sh(demo_cmd, cwd=wt, env=env)
    finally:
        r = sh("git apply target/seeded-src.patch", cwd=wt)
        assert r.returncode == 0, r.stdout
    ok = with_change.returncode != 0 and without.returncode == 0 and "70 passed; 0 failed" in lib_line
    print(f"{name}: demo with change exit={with_change.returncode}, without exit={without.returncode}, lib: {lib_line}")
    if not ok:
        print("NOT CONFIRMED; not stored")
        print(with_change.stdout[-800:])
        print(without.stdout[-800:])
        return 1
    d = f"{SEEDED}/{name}"
    os.makedirs(d, exist_ok=True)
    open(d + "/patch.diff", "w").write(diff)
    shutil.copy(f"{wt}/tests/{demo}.rs", d + "/demo.rs")
    base = sh("git rev-parse HEAD", cwd=wt).stdout.strip()
    meta = {
        "name": name,
        "property": prop,
        "breaks": prop,
        "needs_to_manifest": needs,
        "origin": "independent sub-agent given only the property text and a scratch worktree",
        "base_commit": base,
        "demonstration": {"file": "demo.rs (placed under tests/ of the repository)", "command": demo_cmd,
                          "fails_with_change": True, "passes_without_change": True},
        "confirmed": {"lib_suite_with_change": lib_line, "demo_with_change_tail": with_change.stdout[-600:], "demo_without_change_tail": without.stdout[-300:]},
        "detection": {},
    }
    json.dump(meta, open(d + "/meta.json", "w"), indent=1)
    print("stored", d)
    return 0


BENIGN = ROOT + "/benign"


def add_benign(wt, prop, name, what):
    """A change that keeps the property: store the patch and the agent's two tests."""
    env = dict(os.environ, CARGO_NET_OFFLINE="true", CARGO_TARGET_DIR=wt + "/target")
    diff = sh("git diff -- src", cwd=wt).stdout
    assert diff.strip(), "no src change in worktree"
    lib = sh("cargo test --offline --lib", cwd=wt, env=env)
    lib_line = next((l for l in lib.stdout.splitlines() if l.startswith("test result:")), "")
    tests = sorted(f for f in os.listdir(wt + "/tests") if f.endswith(".rs")) if os.path.isdir(wt + "/tests") else []
    results = {}
    for t in tests:
        stem = t[:-3]
        feat = "--features verif" if "verif" in open(f"{wt}/tests/{t}").read() else ""
        r = sh(f"cargo test --offline {feat} --test {stem}", cwd=wt, env=env)
        results[stem] = {"exit_with_change": r.returncode, "tail": r.stdout[-300:]}
    print(f"{name}: lib: {lib_line}; tests with change: " + ", ".join(f"{k}={v['exit_with_change']}" for k, v in results.items()))
    if "70 passed; 0 failed" not in lib_line:
        print("NOT STORED (lib suite)")
        return 1
    d = f"{BENIGN}/{name}"
    os.makedirs(d, exist_ok=True)
    open(d + "/patch.diff", "w").write(diff)
    for t in tests:
        shutil.copy(f"{wt}/tests/{t}", d + "/" + t)
    meta = {"name": name, "property": prop, "keeps_property": True, "what_changes": what,
            "origin": "independent sub-agent asked for a property-preserving change that an over-strict checker might report",
            "base_commit": sh("git rev-parse HEAD", cwd=wt).stdout.strip(),
            "confirmed": {"lib_suite_with_change": lib_line, "tests_with_change": results}, "detection": {}}
    json.dump(meta, open(d + "/meta.json", "w"), indent=1)
    print("stored", d)
    return 0


def run_benign(names):
    """Every quick check must exit 0 on a property-preserving change."""
    global SEEDED
    saved = SEEDED
    SEEDED = BENIGN
    try:
        return run(names, "quick", True)
    finally:
        SEEDED = saved


def run(names, tier, all_props):
    scratch = f"/tmp/nsim-seeded-{os.getpid()}"
    results = []
    try:
        for name in names or sorted(os.listdir(SEEDED)):
            d = f"{SEEDED}/{name}"
            if not os.path.exists(d + "/meta.json"):
                continue
            meta = json.load(open(d + "/meta.json"))
            repo = scratch + "/repo"
            shutil.rmtree(repo, ignore_errors=True)
            os.makedirs(repo)
            shutil.copytree("/repo/src", repo + "/src")
            r = sh(f"patch -p1 --no-backup-if-mismatch < {d}/patch.diff", cwd=repo)
            if r.returncode != 0:
                print(f"{name}: patch does not apply to the current /repo/src:\n{r.stdout[-400:]}")
                meta["detection"]["applies"] = False
                json.dump(meta, open(d + "/meta.json", "w"), indent=1)
                continue
            env = dict(os.environ, NEURONS_REPO=repo, NEURONS_BUILD=scratch + "/build")
            if tier == "quick":
                env["VERIF_SKIP_E2"] = "1"
            env.pop("VERIF_ROOT", None)
            props = ALL_PROPS if all_props else [meta["property"]]
            for prop in props:
                t0 = time.time()
                r = sh(f"{ROOT}/check {prop} {tier}", env=env)
                line = next((l for l in r.stdout.splitlines() if l.startswith("VIOLATION")), "")
                meta["detection"][f"{prop}:{tier}"] = {"exit": r.returncode, "violation_line": line[:400], "wall_s": round(time.time() - t0, 1)}
                results.append((name, prop, r.returncode))
                print(f"{name:40s} {prop} {tier}: exit={r.returncode} {line[:160]}", flush=True)
                if r.returncode == 2:
                    print(r.stdout[-600:])
            json.dump(meta, open(d + "/meta.json", "w"), indent=1)
    finally:
        shutil.rmtree(scratch, ignore_errors=True)
    return 0


if __name__ == "__main__":
    if sys.argv[1] == "add":
        sys.exit(add(*sys.argv[2:7]))
    elif sys.argv[1] == "add-benign":
        sys.exit(add_benign(*sys.argv[2:6]))
    elif sys.argv[1] == "run-benign":
        sys.exit(run_benign(sys.argv[2:]))
    elif sys.argv[1] == "run":
        args = sys.argv[2:]
        tier = "quick"
        all_props = False
        names = []
        i = 0
        while i < len(args):
            if args[i] == "--tier":
                tier = args[i + 1]
                i += 2
            elif args[i] == "--all-props":
                all_props = True
                i += 1
            else:
                names.append(args[i])
                i += 1
        sys.exit(run(names, tier, all_props))
