#!/usr/bin/env python3
"""Regenerates /verif/MANIFEST.json from the table below (kept as a script so that the
manifest, the not_applicable list and DESIGN.md stay consistent)."""
import json, subprocess

hooks = subprocess.check_output(["git", "-C", "/repo", "log", "--format=%h %s"]).decode().splitlines()
hook_commits = [l.split()[0] for l in hooks if l.split(" ", 1)[1].startswith("verif hook:")]

CLAIMED = {
    "C03": dict(
        text="Seeded search over optimizer kind, every hyper-parameter option combination (including zeros that trigger default substitution), 1-6 parameter slots with drawn addresses/shapes, per-slot update streams (six gradient patterns, three step-number conventions, up to 5000 updates) and the interleaving of the streams. After every update: element-wise agreement with the documented equations (f32 reference + f64 shadow), bitwise equality across Single/Double/Triple storage, bitwise equality between interleaved and isolated streams, finiteness whenever the exact trajectory is moderate. A quarter of the cases are network-level: the slots are the parameter tensors of a whole generated network (dense, multi-filter conv/deconv, feedback blocks with their coupling) updated through Network::update / Feedback::update, and every element must follow the documented rule with its own slot's state (the [layer][filter][bias] addressing).",
        note="Trusted: the reference model transcribes the doc-comment equations; zero hyper-parameters are substituted exactly as Optimizer::validate does. Comparison tolerance 1e-4(1+|w|); ill-conditioned elements (f32 and f64 references drift apart) are only checked for finiteness. No parallel runtime is involved: the simulated nondeterminism is the seeded interleaving of slot update streams over mutable per-slot optimizer state.",
        technique="seeded operation-history simulation (interleaved per-slot update streams) against an executable reference model, with minimisation and replay",
        design="DESIGN.md 5 (C03)"),
    "C04": dict(
        text="Refinement: learn() under a drawn schedule (pool width, steal/order decisions, hash seed, clock script) versus an executable sequential reference trainer that is the property's right-hand side (ordered groups of B, per-sample forward/objective/backward, gradient sum, one optimizer step with step number = epoch, loss bookkeeping). Final parameters and the train-loss vector must agree for every generated (network, optimizer, objective, N, B, E, data).",
        note="Trusted: the reference trainer reuses the library's forward, backward, objective and optimizer step, so C04 decides the orchestration only; the gradient sum is the harness's own code (not Tensor::add_inplace). Tolerance 1e-4(1+|w|) on parameters / 1e-5 on losses so a correct re-association is no alarm; bitwise agreement is counted. E1 switches only at join boundaries.",
        technique="deterministic simulation (simulated work-stealing pool) + refinement check against a sequential reference trainer",
        design="DESIGN.md 5 (C04)"),
    "C05": dict(
        text="Seeded search over (network configuration, data, pool width, steal/order decision at every join, worker re-indexing, pool resize between API calls, hash seed, clock script); every observation of learn/validate/predict_batch must be bit-identical to the sequential width-1 reference, and an exact repetition must reproduce it. Thorough tier adds engine E2: the real rayon-core on real threads under Miri's seeded scheduler for seven fixed and twelve generated scenarios.",
        note="Trusted: the simulated rayon-core reproduces the scheduling-visible semantics of rayon-core 1.12.1 (join/join_context migration flags, current_num_threads, current_thread_index, scope/spawn order); it switches only at join boundaries. All nondeterminism is assumed to enter through rayon-core, Tensor::random's clock read and HashMap's hasher.",
        technique="deterministic simulation (simulated work-stealing pool, seeded hasher and clock), differential bitwise oracle against the sequential reference; Miri seeded-scheduler cross-check",
        design="DESIGN.md 3, 5 (C05)"),
    "C09": dict(
        text="Operation histories (learn with/without validation, validate, predict, predict_batch; 1-5 operations) on networks with dropout on drawn subsets of layers, under drawn schedules. After every operation: all training flags are clear; predict equals, bitwise, a dropout-free twin holding the same parameters; every per-epoch validation metric recorded by learn equals validate() of the dropout-free twin holding the parameters after that epoch (history-prefix replay); validate() right after learn equals the last recorded entry.",
        note="Trusted: training is prefix-consistent and schedule-independent (decided by C05), which the per-epoch oracle relies on; cases whose dropout mask changes nothing are discarded as trivial (counted).",
        technique="seeded operation-history simulation of the training-flag state machine with a dropout-free twin as reference model, under the simulated pool",
        design="DESIGN.md 5 (C09)"),
    "C10": dict(
        text="Invariant checking over histories: networks containing feedback blocks (dense/conv/deconv, bias on/off, loops 1-5, four couplings, skips), all five optimizers, 1-3 learn calls with validate/predict in between, drawn schedules and clock scripts (advancing, frozen, backwards). After creation and after every operation every unrolled copy of a block position holds bitwise identical parameters, and the Display parameter count counts each shared parameter once.",
        note="Trusted: the hook accessor returns every unrolled layer's parameter tensors in order. Overwrite coupling is unimplemented in the library and not generated. Histories whose learn panics (NaN loss, unsupported layer mix) are degenerate.",
        technique="seeded operation-history simulation with an invariant checked after every step, under the simulated pool and simulated clock",
        design="DESIGN.md 5 (C10)"),
    "C12": dict(
        text="validate and predict_batch run under drawn schedules on data-set sizes straddling the chunk size (k*32 +- 1, up to 200) and are compared with a sequential reference computed outside any parallel call: output i is bitwise predict(input i), lengths match, predict equals the last activation of forward, the loss is the mean of the per-sample objective, the accuracy is the mean of the stated per-sample rule (targets placed at prediction +- {0, tol/2, 2 tol}; one-hot on/off the arg-max for soft-max).",
        note="Trusted: per-sample loss is the library's objective on the library's predict (C12 decides aggregation/ordering/accuracy rule). Mean compared bitwise first, else 1e-4 relative. validate with zero samples is outside the property.",
        technique="deterministic simulation (simulated work-stealing pool) with a sequential reference model for ordering, exactly-once and conservation of the chunked parallel map",
        design="DESIGN.md 5 (C12)"),
    "C13": dict(
        text="Recorded-history check: training runs whose validation-loss trajectory is steered (hook-set initial parameters, learning rates 0.01-2.5, independent validation targets, dyadic fixed points for plateaus) through rising, falling, U-shaped, oscillating and plateau shapes, tolerances 1-6, budgets 1-30, with/without validation data, under drawn schedules. The returned vectors must satisfy the length contract and the stopping predicate (never past the first epoch where it holds, never before), without validation the budget is exhausted, and the final parameters are those of exactly len(train_loss) epochs (bounded liveness: termination within the budget).",
        note="Trusted: `strictly increased throughout the last tolerance recorded epochs` is read as the anchored mechanism states it (the last `tolerance` recorded losses strictly increasing; a window of one is vacuous). A NaN loss is not an increase. Epochs actually run are observed through the reference trainer of C04.",
        technique="seeded history simulation with an oracle over the recorded loss history (stopping predicate, bounded liveness), under the simulated pool",
        design="DESIGN.md 5 (C13)"),
}

NA = {
    "C01": "pure function of (architecture, parameters, recorded activations, upstream gradient): no schedule, clock, hash order, fault or cross-call state in it; deciding it is finite-difference search over the configuration lattice (input generation, not simulation)",
    "C02": "each layer's forward is a pure function of (configuration, parameters, input); nothing for a simulator to schedule or fault",
    "C06": "pure element-wise functions of (prediction, target, clamp)",
    "C07": "pure element-wise maps; the quantifier is exhaustive enumeration of 2^32 bit patterns, which is model checking, not seeded simulation",
    "C08": "announced and produced shapes are both pure functions of the configuration; the clock affects values, never shapes",
    "C11": "value of one forward call as a function of (layers, loops, skips, accumulation, input); the block's map is only looked up by key in forward, never iterated",
    "C14": "pure tensor algebra (row-major reshapes)",
    "C15": "pure element-wise tensor arithmetic",
    "C16": "accumulation semantics and gradient exactness are pure functions of (configuration, parameters, input); the one stateful clause (a later connect must not silently replace an earlier one) is deterministic map bookkeeping with no schedule, clock or fault in it, and claiming the property for that clause alone would be a partial claim. Its hash-order exposure was found and repaired under C05 (fix 3a719f6)",
    "C17": "value of forward with a loop connection; the loopbacks map is only looked up by key",
    "C18": "generate/shuffle are pure functions of the generator state; the failing set (a few dozen of 2^31 states) is reachable only by enumerating the state space, which is model checking; sweeping the simulated clock cannot decide it",
}

checks = []
for pid in sorted(CLAIMED):
    c = CLAIMED[pid]
    checks.append({
        "property_id": pid,
        "quick_cmd": f"./check {pid} quick",
        "thorough_cmd": f"./check {pid} thorough",
        "evidence_file": f"/verif/evidence/{pid}.json",
        "replay_cmd_template": "./check replay {path}",
        "engine": "E1 poolsim" + (" + E2 miri-pool (thorough)" if pid in ("C05", "C12") else ""),
        "level_claimed": {"category": "exploration", "text": c["text"] + " Sampling, not proof.", "design_ref": c["design"]},
        "level_note": c["note"],
        "technique": c["technique"],
    })

manifest = {
    "version": 1,
    "setup_cmd": "./check setup",
    "hooks": {
        "guard": "cargo feature `verif` (#[cfg(feature = \"verif\")])",
        "enable": "the checks compile /repo/src (current working tree) through a shadow manifest (/verif/build/shadow/Cargo.toml, [lib] path = /repo/src/lib.rs, features = [\"verif\"]) with [patch.crates-io] rayon-core = /verif/sim/rayon-core; in /repo itself: cargo build --features verif",
        "baseline_off_cmd": "cd /repo && cargo test --workspace --no-fail-fast --offline",
        "source_commits": hook_commits[::-1],
        "add_only": True,
    },
    "engines": [
        {"name": "E1 poolsim", "path": "/verif/sim/rayon-core + /verif/harness (bin nsim)", "serves_properties": sorted(CLAIMED),
         "kind_free_text": "deterministic simulation: the real rayon 1.10.0 iterator layer over a simulated rayon-core (seeded steal/order/worker/width decisions at every join, recorded as a replayable decision trace), simulated clock for Tensor::random, seeded HashMap hasher; seeded workload and operation-history generation, reference models, minimisation, replay files"},
        {"name": "E2 miri-pool", "path": "/verif/miri", "serves_properties": ["C05", "C12"],
         "kind_free_text": "the real rayon-core 1.12.1 on real std threads executed by Miri with a seeded scheduler (-Zmiri-seed, preemption anywhere); thorough tier cross-check of E1 for fixed and VERIF_SEED-generated scenarios"},
    ],
    "checks": checks,
    "not_applicable": [{"property_id": k, "reason": v} for k, v in sorted(NA.items())],
    "notes": "See DESIGN.md. Exit codes of every command: 0 held on everything explored (possibly with KNOWN-FINDING lines), 1 with a `VIOLATION property=<id> replay=<path>` line, 2 harness/build error. Genuine defects found and repaired are listed in known_findings.json (`fixed:` entries) with demonstrations under findings/.",
}
json.dump(manifest, open("/verif/MANIFEST.json", "w"), indent=1)
print("claimed", sorted(CLAIMED), "n/a", len(NA))
