#!/bin/bash
# Determinism self-test: every property's quick check is run in separate processes
# (a) twice with the same worker count and (b) with 1 harness worker vs all cores; the
# per-run event-log hashes (decision traces, split trees, clock reads, hasher instances,
# observed result digests, outcomes) must be identical line by line.
# usage: selftest_determinism.sh <path to nsim> [runs per property]
NSIM="$1"; RUNS="${2:-2000}"
TMP="$(mktemp -d /tmp/nsim-det.XXXXXX)"
fail=0
for p in C03 C04 C05 C09 C10 C12 C13; do
    for variant in a:16 b:16 c:1 d:5; do
        tag="${variant%%:*}"; w="${variant##*:}"
        mkdir -p "$TMP/$p-$tag"
        VERIF_ROOT="$TMP/$p-$tag" VERIF_RUNS="$RUNS" VERIF_WORKERS="$w" VERIF_EVENT_LOG="$TMP/$p-$tag.log" \
            "$NSIM" "$p" quick --out "$TMP/$p-$tag.out" >/dev/null 2>&1
    done
    n=$(wc -l < "$TMP/$p-a.log")
    if cmp -s "$TMP/$p-a.log" "$TMP/$p-b.log" && cmp -s "$TMP/$p-a.log" "$TMP/$p-c.log" && cmp -s "$TMP/$p-a.log" "$TMP/$p-d.log" && [ "$n" -ge "$RUNS" ]; then
        echo "determinism $p: $n runs x 4 processes (workers 16,16,1,5) identical"
    else
        echo "determinism $p: EVENT LOGS DIFFER (see $TMP)"; fail=1
    fi
done
[ $fail -eq 0 ] && rm -rf "$TMP"
exit $fail
