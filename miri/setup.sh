#!/bin/bash
# Prepare Miri's sysroot (offline). The E2 binary itself is built on first use.
export CARGO_NET_OFFLINE=true
if ! cargo +nightly miri setup >/tmp/miri-setup.log 2>&1; then
    echo "HARNESS-ERROR cargo +nightly miri setup failed" >&2
    tail -5 /tmp/miri-setup.log >&2
    exit 2
fi
exit 0
