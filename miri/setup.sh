#!/bin/bash
# Prepare Miri's sysroot (offline). The E2 binary itself is built on first use.
export CARGO_NET_OFFLINE=true
DIR="$(cd "$(dirname "$0")/.." && pwd)"
mkdir -p "$DIR/build"
LOG="$DIR/build/miri-setup.log"
if ! cargo +nightly miri setup >"$LOG" 2>&1; then
    echo "HARNESS-ERROR cargo +nightly miri setup failed" >&2
    tail -5 "$LOG" >&2
    exit 2
fi
exit 0
