//! usage: miri-pool <scenario 0..5> <threads> [<hash seed> [c05|c12]]
//! Prints `DIGEST <hex>` : FNV of every observable bit pattern of the scenario
//! (per-epoch losses, accuracies, final parameters, validate result, predict_batch outputs
//! in order).
use neurons::{activation::Activation, feedback, network::Network, objective, optimizer, tensor, verif};

#[path = "../../sim/fidelity.rs"]
mod fidelity;
// the harness's configuration types (what `nsim export-e2` writes), shared by path
#[allow(dead_code)]
#[path = "../../harness/src/cfg.rs"]
mod cfg;
mod exec {
    pub fn set_phase(_phase: &'static str) {}
}

#[derive(serde::Deserialize)]
struct Data {
    x: Vec<Vec<f32>>,
    y: Vec<Vec<f32>>,
}

#[derive(serde::Deserialize)]
struct Generated {
    net: cfg::NetCfg,
    train: Data,
    batch: usize,
    epochs: i32,
    val: Option<Data>,
    early_tol: i32,
    pred: Vec<Vec<f32>>,
}

/// One generated scenario: build -> learn (with its validation data, if any) -> predict_batch;
/// digest of every observable bit pattern.
fn run_generated(sc: &Generated) -> u64 {
    let mut net = sc.net.build();
    let xs: Vec<tensor::Tensor> = sc.train.x.iter().map(|x| sc.net.input_tensor(x)).collect();
    let ys: Vec<tensor::Tensor> = sc.train.y.iter().map(|y| tensor::Tensor::single(y.clone())).collect();
    let (vx, vy): (Vec<tensor::Tensor>, Vec<tensor::Tensor>) = match &sc.val {
        Some(v) => (
            v.x.iter().map(|x| sc.net.input_tensor(x)).collect(),
            v.y.iter().map(|y| tensor::Tensor::single(y.clone())).collect(),
        ),
        None => (Vec::new(), Vec::new()),
    };
    let xr: Vec<&tensor::Tensor> = xs.iter().collect();
    let yr: Vec<&tensor::Tensor> = ys.iter().collect();
    let vxr: Vec<&tensor::Tensor> = vx.iter().collect();
    let vyr: Vec<&tensor::Tensor> = vy.iter().collect();
    let validation = if sc.val.is_some() { Some((&vxr, &vyr, sc.early_tol)) } else { None };
    let mut h: u64 = 0xcbf2_9ce4_8422_2325;
    let mut eat = |x: f32| {
        h = (h ^ x.to_bits() as u64).wrapping_mul(0x0000_0100_0000_01B3);
    };
    let (tl, vl, va) = net.learn(&xr, &yr, validation, sc.batch, sc.epochs, None);
    for x in tl.iter().chain(vl.iter()).chain(va.iter()) {
        eat(*x);
    }
    for p in cfg::parameters(&net) {
        p.iter().for_each(|x| eat(*x));
    }
    let px: Vec<tensor::Tensor> = sc.pred.iter().map(|x| sc.net.input_tensor(x)).collect();
    let pxr: Vec<&tensor::Tensor> = px.iter().collect();
    for (i, out) in net.predict_batch(&pxr).iter().enumerate() {
        eat(i as f32);
        for x in cfg::flat(out) {
            eat(x);
        }
    }
    h
}

struct Lcg(u64);
impl Lcg {
    fn next(&mut self) -> f32 {
        self.0 = self.0.wrapping_mul(6364136223846793005).wrapping_add(1442695040888963407);
        ((self.0 >> 40) as f32 / (1u64 << 24) as f32) * 2.0 - 1.0
    }
    fn vec(&mut self, n: usize) -> Vec<f32> {
        (0..n).map(|_| self.next()).collect()
    }
}

fn scenario(id: usize) -> (Network, usize, usize, usize, usize, usize, usize) {
    // returns (network, input count, output count, N, batch, V, M)
    match id {
        0 => {
            let mut net = Network::new(tensor::Shape::Single(4));
            net.dense(5, Activation::Tanh, true, None);
            net.dense(3, Activation::Linear, true, None);
            net.set_optimizer(optimizer::Adam::create(0.01, 0.9, 0.999, 1e-8, None));
            (net, 4, 3, 6, 4, 5, 7)
        }
        1 => {
            let mut net = Network::new(tensor::Shape::Triple(1, 5, 5));
            net.convolution(2, (3, 3), (1, 1), (1, 1), (1, 1), Activation::ReLU, Some(0.3));
            net.maxpool((2, 2), (2, 2));
            net.dense(3, Activation::Softmax, true, None);
            net.set_optimizer(optimizer::SGDM::create(0.05, 0.9, 0.0, None));
            net.set_objective(objective::Objective::CrossEntropy, None);
            (net, 25, 3, 5, 3, 4, 6)
        }
        2 => {
            let mut net = Network::new(tensor::Shape::Single(4));
            net.feedback(
                vec![feedback::Layer::Dense(4, Activation::Sigmoid, false, None)],
                4,
                true,
                true,
                feedback::Accumulation::Mean,
            );
            net.dense(2, Activation::Tanh, false, None);
            net.set_optimizer(optimizer::RMSprop::create(0.01, 0.9, 1e-8, None, Some(0.5), true));
            (net, 4, 2, 5, 2, 3, 5)
        }
        5 => {
            // deconvolution and a five-filter convolution (parallel-over-filters code paths)
            let mut net = Network::new(tensor::Shape::Triple(1, 3, 3));
            net.deconvolution(2, (2, 2), (1, 1), (0, 0), Activation::Tanh, None);
            net.convolution(5, (2, 2), (1, 1), (0, 0), (1, 1), Activation::LeakyReLU, Some(0.5));
            net.dense(2, Activation::Linear, true, None);
            net.set_optimizer(optimizer::AdamW::create(0.01, 0.9, 0.999, 1e-8, 0.01));
            (net, 9, 2, 6, 3, 3, 5)
        }
        4 => {
            // one batch of 24 samples: the per-sample map is split into leaves of up to
            // three samples, differently for different pool widths
            let mut net = Network::new(tensor::Shape::Single(3));
            net.dense(4, Activation::Tanh, true, None);
            net.dense(2, Activation::Linear, false, None);
            net.set_optimizer(optimizer::SGDM::create(0.05, 0.9, 0.1, Some(0.01)));
            (net, 3, 2, 24, 24, 3, 5)
        }
        _ => {
            let mut net = Network::new(tensor::Shape::Single(4));
            net.dense(4, Activation::Tanh, false, None);
            net.dense(4, Activation::Tanh, false, None);
            net.dense(4, Activation::Tanh, false, None);
            net.dense(2, Activation::Linear, true, None);
            net.connect(1, 2);
            net.connect(1, 3);
            net.loopback(1, 1, 2, std::sync::Arc::new(|x| 1.0 / x), false);
            (net, 4, 2, 6, 4, 66, 66)
        }
    }
}

fn main() {
    let args: Vec<String> = std::env::args().collect();
    if args.get(1).map(|s| s.as_str()) == Some("fidelity") {
        // split-tree log of the REAL rayon-core on a one-worker pool (run natively)
        rayon::ThreadPoolBuilder::new().num_threads(1).build_global().unwrap();
        println!("== called from outside the pool");
        print!("{}", fidelity::fidelity_log());
        let pool = rayon::ThreadPoolBuilder::new().num_threads(1).build().unwrap();
        println!("== called from inside the pool");
        print!("{}", pool.install(fidelity::fidelity_log));
        return;
    }
    if args.get(1).map(|s| s.as_str()) == Some("gen") {
        // miri-pool gen <scenario json> <threads> <hash seed>   (the scenario travels in argv:
        // Miri's isolation stays on, nothing is read from disk)
        let sc: Generated = serde_json::from_str(&args[2]).expect("scenario json");
        let threads: usize = args[3].parse().unwrap();
        let hash_seed: u64 = args.get(4).and_then(|s| s.parse().ok()).unwrap_or(0);
        rayon::ThreadPoolBuilder::new().num_threads(threads).build_global().unwrap();
        verif::set_clock(Some((424_242, 1_337)));
        verif::set_hash_seed(hash_seed);
        println!("DIGEST {:016x}", run_generated(&sc));
        return;
    }
    let id: usize = args.get(1).and_then(|s| s.parse().ok()).unwrap_or(0);
    let threads: usize = args.get(2).and_then(|s| s.parse().ok()).unwrap_or(1);
    let hash_seed: u64 = args.get(3).and_then(|s| s.parse().ok()).unwrap_or(0);
    let mode: String = args.get(4).cloned().unwrap_or_else(|| "c05".to_string());
    rayon::ThreadPoolBuilder::new().num_threads(threads).build_global().unwrap();
    verif::set_clock(Some((424_242, 1_337)));
    verif::set_hash_seed(hash_seed);

    if id == 6 {
        // a sweep: six networks (dropout, validation data) trained as the tasks of one
        // parallel loop inside the pool; a worker that waits inside one `learn` may run
        // another network's whole `learn` nested in that wait (work stealing does that)
        use rayon::prelude::*;
        let mut rng = Lcg(0x5eed + 6);
        let mut nets: Vec<Network> = (0..6)
            .map(|_| {
                let mut net = Network::new(tensor::Shape::Single(3));
                net.dense(4, Activation::Tanh, true, Some(0.5));
                net.dense(2, Activation::Linear, true, None);
                net.set_optimizer(optimizer::SGD::create(0.05, None));
                net
            })
            .collect();
        let xs: Vec<tensor::Tensor> = (0..6).map(|_| tensor::Tensor::single(rng.vec(3))).collect();
        let ys: Vec<tensor::Tensor> = (0..6).map(|_| tensor::Tensor::single(rng.vec(2))).collect();
        let vx: Vec<tensor::Tensor> = (0..3).map(|_| tensor::Tensor::single(rng.vec(3))).collect();
        let vy: Vec<tensor::Tensor> = (0..3).map(|_| tensor::Tensor::single(rng.vec(2))).collect();
        let xr: Vec<&tensor::Tensor> = xs.iter().collect();
        let yr: Vec<&tensor::Tensor> = ys.iter().collect();
        let vxr: Vec<&tensor::Tensor> = vx.iter().collect();
        let vyr: Vec<&tensor::Tensor> = vy.iter().collect();
        let digests: Vec<u64> = nets
            .par_iter_mut()
            .map(|net| {
                let mut h: u64 = 0xcbf2_9ce4_8422_2325;
                let mut eat = |x: f32| {
                    h = (h ^ x.to_bits() as u64).wrapping_mul(0x0000_0100_0000_01B3);
                };
                let (tl, vl, va) = net.learn(&xr, &yr, Some((&vxr, &vyr, 1000)), 6, 3, None);
                for x in tl.iter().chain(vl.iter()).chain(va.iter()) {
                    eat(*x);
                }
                for p in cfg::parameters(net) {
                    p.iter().for_each(|x| eat(*x));
                }
                for x in vxr.iter() {
                    for y in cfg::flat(&net.predict(x)) {
                        eat(y);
                    }
                }
                h
            })
            .collect();
        let mut h: u64 = 0xcbf2_9ce4_8422_2325;
        for d in digests {
            h = (h ^ d).wrapping_mul(0x0000_0100_0000_01B3);
        }
        println!("DIGEST {:016x}", h);
        return;
    }
    let (mut net, inputs, outputs, n, batch, v, m) = scenario(id);
    let mut rng = Lcg(0x5eed + id as u64);
    let to_x = |net_in: usize, data: Vec<f32>| -> tensor::Tensor {
        let t = tensor::Tensor::single(data);
        if id == 1 {
            let _ = net_in;
            t.reshape(tensor::Shape::Triple(1, 5, 5))
        } else if id == 5 {
            t.reshape(tensor::Shape::Triple(1, 3, 3))
        } else {
            t
        }
    };
    let mk_y = |rng: &mut Lcg| -> tensor::Tensor {
        if id == 1 {
            let hot = ((rng.next() + 1.0) * 1.49) as usize % outputs;
            tensor::Tensor::one_hot(hot, outputs)
        } else {
            tensor::Tensor::single(rng.vec(outputs))
        }
    };
    let xs: Vec<tensor::Tensor> = (0..n).map(|_| to_x(inputs, rng.vec(inputs))).collect();
    let ys: Vec<tensor::Tensor> = (0..n).map(|_| mk_y(&mut rng)).collect();
    let vx: Vec<tensor::Tensor> = (0..v).map(|_| to_x(inputs, rng.vec(inputs))).collect();
    let vy: Vec<tensor::Tensor> = (0..v).map(|_| mk_y(&mut rng)).collect();
    let px: Vec<tensor::Tensor> = (0..m).map(|_| to_x(inputs, rng.vec(inputs))).collect();

    let xr: Vec<&tensor::Tensor> = xs.iter().collect();
    let yr: Vec<&tensor::Tensor> = ys.iter().collect();
    let vxr: Vec<&tensor::Tensor> = vx.iter().collect();
    let vyr: Vec<&tensor::Tensor> = vy.iter().collect();
    let pxr: Vec<&tensor::Tensor> = px.iter().collect();

    let mut h: u64 = 0xcbf2_9ce4_8422_2325;
    let mut eat = |x: f32| {
        h = (h ^ x.to_bits() as u64).wrapping_mul(0x0000_0100_0000_01B3);
    };
    if mode == "c12" {
        // sequential reference on this thread, then the parallel aggregations
        let objective = objective::Function::create(objective::Objective::MSE, None);
        let reference: Vec<Vec<f32>> = pxr.iter().map(|x| net.predict(x).get_flat()).collect();
        let batch_out: Vec<Vec<f32>> = net.predict_batch(&pxr).iter().map(|t| t.get_flat()).collect();
        let mut ok = batch_out.len() == reference.len();
        for (a, b) in batch_out.iter().zip(reference.iter()) {
            if a.iter().map(|x| x.to_bits()).ne(b.iter().map(|x| x.to_bits())) {
                ok = false;
            }
        }
        let mut sum = 0.0f32;
        for (x, y) in vxr.iter().zip(vyr.iter()) {
            sum += objective.loss(&net.predict(x), y).0;
        }
        let mean = sum / vxr.len() as f32;
        let (l, _) = net.validate(&vxr, &vyr, 1e-3);
        if (l - mean).abs() > 1e-4 * (1.0 + mean.abs()) {
            ok = false;
        }
        println!("DIGEST {:016x}", if ok { 0x0c12_0c12_0c12_0c12u64 } else { 0xbad0_bad0_bad0_bad0u64 });
        return;
    }
    let epochs = if id == 3 || id == 4 { 1 } else { 2 };
    let (tl, vl, va) = net.learn(&xr, &yr, Some((&vxr, &vyr, 1000)), batch, epochs, None);
    for x in tl.iter().chain(vl.iter()).chain(va.iter()) {
        eat(*x);
    }
    for layer in net.layers.iter() {
        for t in verif::layer_parameters(layer) {
            match &t.data {
                tensor::Data::Single(v) => v.iter().for_each(|x| eat(*x)),
                tensor::Data::Double(v) => v.iter().flatten().for_each(|x| eat(*x)),
                tensor::Data::Triple(v) => v.iter().flatten().flatten().for_each(|x| eat(*x)),
                _ => {}
            }
        }
    }
    // (a tolerance at which a good part of the outputs are hits: the accuracy is then a
    // non-trivial sum and a lost or re-ordered per-sample contribution shows in it)
    let (l, a) = net.validate(&vxr, &vyr, 0.5);
    eat(l);
    eat(a);
    // order-sensitive: the position is mixed into the digest
    for (i, out) in net.predict_batch(&pxr).iter().enumerate() {
        eat(i as f32);
        for x in out.get_flat() {
            eat(x);
        }
    }
    println!("DIGEST {:016x}", h);
}
