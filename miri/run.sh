#!/bin/bash
# called by ./check for the thorough tier: run.sh <ID> <REPO> <VERIF_ROOT>
DIR="$(cd "$(dirname "$0")" && pwd)"
exec python3 "$DIR/run.py" "$1" "$3" "$(dirname "$DIR")"
