#!/usr/bin/env python3
"""Engine E2 driver: runs the E2 binary under `cargo +nightly miri run` with explicit Miri
seeds (one seed = one exactly repeatable execution of the real rayon-core pool) and compares
every digest with the single-thread reference.

usage: run.py <C05|C12> <verif_root> <base_dir>        (thorough tier, called by ./check)
       run.py replay <file> <verif_root> <base_dir>
Exit 0 held / 1 VIOLATION / 2 harness error.
"""
import json, os, subprocess, sys, time
from concurrent.futures import ThreadPoolExecutor

FLAGS = "-Zmiri-disable-stacked-borrows -Zmiri-permissive-provenance -Zmiri-ignore-leaks -Zmiri-no-extra-rounding-error"

# (scenario, threads, seeds, preemption rate)
PLAN = {
    "C05": [
        (0, 2, range(0, 12), 0.05), (0, 3, range(12, 24), 0.2), (0, 5, range(24, 32), 0.05),
        (1, 3, range(0, 8), 0.05),
        (2, 2, range(0, 8), 0.2), (2, 3, range(8, 16), 0.05),
        (3, 3, range(0, 8), 0.05),
        (4, 3, range(0, 6), 0.05), (4, 2, range(6, 10), 0.2),
        (5, 3, range(0, 6), 0.05),
        (6, 5, range(0, 8), 0.2), (6, 4, range(8, 12), 0.2), (6, 3, range(12, 14), 0.05),
    ],
    "C12": [(3, 3, range(100, 112), 0.05), (0, 2, range(100, 108), 0.2)],
}
# generated scenarios (C05 only): `nsim export-e2` draws them from the C05 swarm generator with
# VERIF_SEED, so another seed is another set of small networks on the real pool
GENERATED = {"C05": (12, 3, [(3, 0.05), (2, 0.2)])}   # count, miri seeds per (threads, rate)
SCENARIOS = {
    0: "dense 4-5-3, Adam, 6 samples, batch 4, 2 epochs, validation 5, predict_batch 7",
    1: "conv(dropout 0.3)+maxpool+softmax dense, SGDM, cross-entropy, 5 samples, batch 3",
    2: "feedback block (4 loops, input+output skips, mean) + dense, centred RMSprop with momentum",
    3: "4 dense layers, two skips out of one source, loop connection, 66 validation / 66 predict_batch inputs (2 chunks)",
    5: "deconvolution + five-filter convolution with dropout + dense, AdamW, 6 samples, batch 3",
    6: "sweep: six dense 3-4-2 networks with dropout 0.5 and validation data trained as tasks of one parallel loop (one batch of 6 samples, 3 epochs); more tasks than workers, so a worker waiting inside one learn runs another network's learn nested",
    4: "dense 3-4-2, SGDM with dampening and decay, one batch of 24 samples (split trees with leaves of up to 3 samples)",
}


def miri(base, args, seed, rate, timeout=3600):
    env = dict(os.environ)
    env["MIRIFLAGS"] = f"-Zmiri-seed={seed} -Zmiri-preemption-rate={rate} {FLAGS}"
    env["CARGO_NET_OFFLINE"] = "true"
    env["CARGO_TARGET_DIR"] = base + "/build/miri-target"
    r = subprocess.run(["cargo", "+nightly", "miri", "run", "--offline", "-q", "--"] + [str(a) for a in args],
                       cwd=base + "/miri", env=env, stdout=subprocess.PIPE, stderr=subprocess.PIPE, text=True, timeout=timeout)
    digest = None
    for line in r.stdout.splitlines():
        if line.startswith("DIGEST "):
            digest = line.split()[1]
    return digest, r


def main():
    if sys.argv[1] == "replay":
        f = json.load(open(sys.argv[2]))
        base = sys.argv[4]
        d, r = miri(base, f["argv"], f["miri_seed"], f["preemption_rate"])
        if d is None:
            print("HARNESS-ERROR E2 replay produced no digest:", r.stderr[-400:])
            return 2
        if d != f["expected_digest"]:
            print(f"VIOLATION property={f['property']} replay=<replayed> engine=E2 digest={d} expected={f['expected_digest']} same_as_recorded={d == f['got_digest']}")
            return 1
        print("replay: E2 execution matches the reference digest (no violation reproduced)")
        return 0

    prop, root, base = sys.argv[1], sys.argv[2], sys.argv[3]
    if prop not in PLAN:
        return 0
    mode = "c12" if prop == "C12" else "c05"
    t0 = time.time()
    # reference digests: one thread, seed 0 (this also builds the binary once)
    refs = {}
    for sc in sorted({p[0] for p in PLAN[prop]}):
        d, r = miri(base, [sc, 1, 0, mode], 0, 0.0)
        if d is None:
            print("HARNESS-ERROR E2 reference run failed:", r.stderr[-600:])
            return 2
        refs[sc] = d
    jobs = []
    argv = {}
    for (sc, threads, seeds, rate) in PLAN[prop]:
        for seed in seeds:
            # odd seeds also change the hash seed (run-to-run hasher randomness)
            j = (sc, threads, seed, rate, seed if seed % 2 else 0)
            jobs.append(j)
            argv[j] = [sc, threads, j[4], mode]
    generated = []
    if prop in GENERATED:
        count, per, combos = GENERATED[prop]
        gen_file = base + "/build/e2-generated.json"
        nsim = base + "/build/target/release/nsim"
        g = subprocess.run([nsim, "export-e2", str(count), "--out", gen_file], stdout=subprocess.DEVNULL, stderr=subprocess.PIPE, text=True)
        if g.returncode != 0 or not os.path.exists(gen_file):
            print("HARNESS-ERROR E2 scenario export failed:", g.stderr[-400:])
            return 2
        generated = json.load(open(gen_file))
        for i, sc_json in enumerate(generated):
            key = f"g{i}"
            SCENARIOS[key] = "generated: " + "+".join(list(l.keys())[0] for l in sc_json["net"]["layers"]) + \
                f", {list(sc_json['net']['optimizer'].keys())[0] if isinstance(sc_json['net'].get('optimizer'), dict) else sc_json['net'].get('optimizer')}, {len(sc_json['train']['x'])} samples, batch {sc_json['batch']}, predict_batch {len(sc_json['pred'])}"
            text = json.dumps(sc_json, separators=(",", ":"))
            d, r = miri(base, ["gen", text, 1, 0], 0, 0.0)
            if d is None:
                print("HARNESS-ERROR E2 generated reference run failed:", r.stderr[-600:])
                return 2
            refs[key] = d
            n = 0
            for (threads, rate) in combos:
                for k in range(per):
                    seed = 1000 + 10 * i + n
                    n += 1
                    j = (key, threads, seed, rate, seed if seed % 2 else 0)
                    jobs.append(j)
                    argv[j] = ["gen", text, threads, j[4]]
    results = []
    workers = min(16, os.cpu_count() or 4)
    with ThreadPoolExecutor(max_workers=workers) as ex:
        futs = [(j, ex.submit(miri, base, argv[j], j[2], j[3])) for j in jobs]
        for j, fut in futs:
            d, r = fut.result()
            results.append((j, d, r))
    violations = []
    errors = []
    for (sc, threads, seed, rate, hseed), d, r in results:
        if d is None:
            # a data race / UB report from Miri is a finding in its own right
            if "Undefined Behavior" in r.stderr or "data race" in r.stderr.lower():
                violations.append((sc, threads, seed, rate, hseed, "UB:" + r.stderr.strip().splitlines()[0][:120]))
            else:
                errors.append((sc, threads, seed, r.stderr[-300:]))
        elif d != refs[sc]:
            violations.append((sc, threads, seed, rate, hseed, d))
    wall = time.time() - t0
    os.makedirs(root + "/replays", exist_ok=True)
    lines = []
    for (sc, threads, seed, rate, hseed, d) in violations[:4]:
        path = f"{root}/replays/{prop}-e2-s{sc}-t{threads}-seed{seed}.json"
        json.dump({"property": prop, "engine": "E2", "scenario": sc, "scenario_text": SCENARIOS[sc], "threads": threads,
                   "miri_seed": seed, "preemption_rate": rate, "hash_seed": hseed, "miri_flags": FLAGS,
                   "argv": argv[(sc, threads, seed, rate, hseed)],
                   "expected_digest": refs[sc], "got_digest": d,
                   "replay_cmd": "./check replay <this file>"}, open(path, "w"), indent=1)
        lines.append(f"VIOLATION property={prop} replay={path} engine=E2 scenario={sc} threads={threads} miri_seed={seed} digest={d} expected={refs[sc]}")
    # merge into the evidence file written by E1
    ev_path = f"{root}/evidence/{prop}.json"
    try:
        ev = json.load(open(ev_path))
        ev["coverage"]["e2_miri_pool"] = {
            "executions": len(results), "distinct_miri_seeds": len({j[2] for j, _, _ in results}),
            "plan": [{"scenario": SCENARIOS[p[0]], "threads": p[1], "seeds": [p[2].start, p[2].stop], "preemption_rate": p[3]} for p in PLAN[prop]],
            "mismatches": len(violations), "harness_errors": len(errors), "wall_s": wall,
            "generated_scenarios": [SCENARIOS[k] for k in SCENARIOS if isinstance(k, str)],
            "executions_per_hour": int(len(results) / wall * 3600) if wall > 0 else 0,
            "flags": FLAGS,
            "components": {"real": ["/repo/src", "rayon 1.10.0", "rayon-core 1.12.1", "crossbeam", "std threads (interpreted by Miri)"], "stub": ["HashMap hasher (seeded)", "SystemTime (simulated clock)"]},
        }
        ev["violations"] = ev.get("violations", 0) + len(violations)
        ev["wall_s"] = ev.get("wall_s", 0) + wall
        json.dump(ev, open(ev_path, "w"), indent=1)
    except Exception as e:  # evidence must exist: E1 ran first
        print("HARNESS-ERROR cannot update evidence:", e)
        return 2
    for l in lines:
        print(l)
    print(f"{prop} thorough E2: executions={len(results)} mismatches={len(violations)} errors={len(errors)} wall={wall:.0f}s")
    if errors:
        print("HARNESS-ERROR E2 executions without digest:", errors[:2])
        return 2
    return 1 if violations else 0


if __name__ == "__main__":
    sys.exit(main())
