#!/usr/bin/env python3
"""Sensitivity self-test: apply scripted edits to a scratch copy of /repo/src (outside /repo
and /verif), run the matching quick check against the copy and require the expected verdict:
exit 1 (VIOLATION) for property-breaking edits, exit 0 for refactors that keep the property.

usage: selftest_sensitivity.py [name-substring ...]
The scratch copy and its build directory live under /tmp/nsim-ss and are removed at the end.
"""
import os, shutil, subprocess, sys, time

ROOT = os.path.dirname(os.path.abspath(__file__))
SCRATCH = "/tmp/nsim-ss"
REPO = SCRATCH + "/repo"

# (name, property, file, old, new, expected exit code)
MUTANTS = [
    # ---- C05 -------------------------------------------------------------------------
    ("c05-completion-order-accumulation", "C05", "src/network.rs",
     """                let results: Vec<_> = batch
                    .into_par_iter()
                    .map(|(input, target)| {""",
     """                let __sink = std::sync::Mutex::new(Vec::new());
                batch
                    .into_par_iter()
                    .for_each(|(input, target)| {
                        let __r = (|(input, target): (&&tensor::Tensor, &&tensor::Tensor)| {""", 1),
    ("c05-dropout-seeded-by-thread-index", "C05", "src/tensor.rs",
     "let mut generator = random::Generator::create(12345);",
     "let mut generator = random::Generator::create(12345 + rayon::current_thread_index().unwrap_or(0) as u64);", 1),
    ("c12-reversed-chunks-in-predict-batch", "C12", "src/network.rs",
     """    pub fn predict_batch(&self, inputs: &Vec<&tensor::Tensor>) -> Vec<tensor::Tensor> {
        inputs
            .par_chunks(_CHUNKS)""",
     """    pub fn predict_batch(&self, inputs: &Vec<&tensor::Tensor>) -> Vec<tensor::Tensor> {
        inputs
            .par_chunks(_CHUNKS)
            .rev()""", 1),
    ("c05-validate-parallel-float-sum", "C05", "src/network.rs",
     """        (
            loss.iter().sum::<f32>() / loss.len() as f32,
            acc.iter().sum::<f32>() / acc.len() as f32,
        )""",
     """        (
            loss.par_iter().sum::<f32>() / loss.len() as f32,
            acc.iter().sum::<f32>() / acc.len() as f32,
        )""", 1),
    # ---- C04 -------------------------------------------------------------------------
    ("c04-mean-instead-of-sum", "C04", "src/network.rs",
     "                self.update(epoch, weight_gradients, bias_gradients);",
     """                let __n = losses.len() as f32;
                for g in weight_gradients.iter_mut() { if !matches!(g.data, tensor::Data::Nested(_)) && !matches!(g.shape, tensor::Shape::Single(0)) { g.div_scalar_inplace(__n); } }
                self.update(epoch, weight_gradients, bias_gradients);""", 1),
    ("c04-drop-remainder-batch", "C04", "src/network.rs",
     """            .par_chunks(batch)
            .zip(targets.par_chunks(batch))""",
     """            .par_chunks_exact(batch.min(inputs.len()))
            .zip(targets.par_chunks_exact(batch.min(inputs.len())))""", 1),
    ("c04-global-step-counter", "C04", "src/network.rs",
     "                self.update(epoch, weight_gradients, bias_gradients);",
     "                __step += 1;\n                self.update(__step, weight_gradients, bias_gradients);", 1),
    ("c04-reversed-batches", "C04", "src/network.rs",
     "            for batch in batches.iter() {",
     "            for batch in batches.iter().rev() {", 1),
    ("c04-loss-sum-not-mean", "C04", "src/network.rs",
     "            train_loss.push(loss_epoch / batches.len() as f32);",
     "            train_loss.push(loss_epoch);", 1),
    ("c04-refactor-reverse-sample-sum (keeps property)", "C04", "src/network.rs",
     "                for (wg, wb, loss) in results {",
     "                for (wg, wb, loss) in results.into_iter().rev().collect::<Vec<_>>().into_iter().rev() {", 0),
    # ---- C12 -------------------------------------------------------------------------
    ("c12-tolerance-inclusive", "C12", "src/network.rs",
     """                                                    if (t - p).abs() < tol {""",
     """                                                    if (t - p).abs() <= tol {""", 0),  # targets sit at +-tol/2 and +-2tol: <= vs < is not observable at these margins; documents the oracle's resolution
    ("c12-sum-instead-of-mean", "C12", "src/network.rs",
     """            loss.iter().sum::<f32>() / loss.len() as f32,
            acc.iter().sum::<f32>() / acc.len() as f32,""",
     """            loss.iter().sum::<f32>(),
            acc.iter().sum::<f32>() / acc.len() as f32,""", 1),
    ("c12-mismatched-chunk-sizes", "C12", "src/network.rs",
     """            .par_chunks(_CHUNKS)
            .zip(targets.par_chunks(_CHUNKS))
            .flat_map(|(inputs, targets)| {""",
     """            .par_chunks(_CHUNKS)
            .zip(targets.par_chunks(_CHUNKS / 2))
            .flat_map(|(inputs, targets)| {""", 1),
    ("c12-argmax-rule-for-every-activation", "C12", "src/network.rs",
     """                                activation::Function::Softmax(_) => {""",
     """                                activation::Function::Softmax(_) | activation::Function::Sigmoid(_) => {""", 1),
    # ---- C13 -------------------------------------------------------------------------
    ("c13-stop-check-from-epoch-eq-threshold", "C13", "src/network.rs",
     "                if epoch > threshold {",
     "                if epoch >= threshold {", 1),
    ("c13-non-strict-increase", "C13", "src/network.rs",
     "                        if !(history[i] > history[i + 1]) {",
     "                        if !(history[i] >= history[i + 1]) {", 1),
    ("c13-window-one-longer", "C13", "src/network.rs",
     "                        val_loss.iter().rev().take(threshold as usize).collect();\n                    let mut increasing = true;\n                    for i in 0..threshold as usize - 1 {",
     "                        val_loss.iter().rev().take(threshold as usize + 1).collect();\n                    let mut increasing = true;\n                    for i in 0..threshold as usize {", 1),
    ("c13-validation-metrics-pushed-before-training", "C13", "src/network.rs",
     "            train_loss.push(loss_epoch / batches.len() as f32);\n",
     "            if epoch < epochs || validation.is_none() { train_loss.push(loss_epoch / batches.len() as f32); }\n", 1),
    # ---- C09 -------------------------------------------------------------------------
    ("c09-learn-exit-forgets-feedback-flags", "C09", "src/network.rs",
     """                Layer::Deconvolution(layer) => layer.training = false,
                Layer::Feedback(feedback) => feedback.training(false),
                _ => (),
            }
        }

        (train_loss, val_loss, val_acc)""",
     """                Layer::Deconvolution(layer) => layer.training = false,
                _ => (),
            }
        }

        (train_loss, val_loss, val_acc)""", 1),
    ("c09-validate-skips-convolution-flags", "C09", "src/network.rs",
     """                Layer::Convolution(layer) => layer.training = false,
                Layer::Deconvolution(layer) => layer.training = false,
                Layer::Feedback(feedback) => feedback.training(false),
                _ => (),
            }
        }

        let results""",
     """                Layer::Deconvolution(layer) => layer.training = false,
                Layer::Feedback(feedback) => feedback.training(false),
                _ => (),
            }
        }

        let results""", 1),
    # ---- C10 -------------------------------------------------------------------------
    ("c10-parameters-count-every-copy", "C10", "src/feedback.rs",
     "        for idx in 0..self.coupled.len() {\n            parameters += match &self.layers[idx] {",
     "        for idx in 0..self.layers.len() {\n            parameters += match &self.layers[idx] {", 1),
    ("c10-bias-not-recoupled", "C10", "src/feedback.rs",
     """                        if let Some(b) = &mut layer.bias {
                            *b = bias.clone().unwrap();
                        }""",
     """                        if let (Some(_b), false) = (&mut layer.bias, true) {
                            *_b = bias.clone().unwrap();
                        }""", 1),
    # ---- C03 -------------------------------------------------------------------------
    ("c03-adam-triple-swaps-betas", "C03", "src/optimizer.rs",
     """                        momentum[i][j][k] = momentum[i][j][k] * self.beta1
                            + gradients[i][j][k] * (1.0 - self.beta1);
                        velocity[i][j][k] = velocity[i][j][k] * self.beta2
                            + gradients[i][j][k].powf(2.0) * (1.0 - self.beta2);
                        let m = momentum[i][j][k] / (1.0 - self.beta1.powi(stepnr));
                        let v = velocity[i][j][k] / (1.0 - self.beta2.powi(stepnr));
                        weights[i][j][k] -= self.learning_rate * m / (v.sqrt() + self.epsilon);
                    }
                }
            }),
            _ => panic!("Inconsistent shapes!"),
        };
    }
}

/// AdamW optimizer.""",
     """                        momentum[i][j][k] = momentum[i][j][k] * self.beta1
                            + gradients[i][j][k] * (1.0 - self.beta1);
                        velocity[i][j][k] = velocity[i][j][k] * self.beta2
                            + gradients[i][j][k].powf(2.0) * (1.0 - self.beta2);
                        let m = momentum[i][j][k] / (1.0 - self.beta2.powi(stepnr));
                        let v = velocity[i][j][k] / (1.0 - self.beta1.powi(stepnr));
                        weights[i][j][k] -= self.learning_rate * m / (v.sqrt() + self.epsilon);
                    }
                }
            }),
            _ => panic!("Inconsistent shapes!"),
        };
    }
}

/// AdamW optimizer.""", 1),
    ("c03-bias-shares-weight-slot", "C03", "src/optimizer.rs",
     """            &mut self.momentum[layer][filter][bias as usize].data,
            &mut self.velocity[layer][filter][bias as usize].data,
        ) {
            (
                tensor::Data::Single(weights),
                tensor::Data::Single(gradients),
                tensor::Data::Single(momentum),
                tensor::Data::Single(velocity),
            ) => (0..weights.len()).for_each(|i| {
                if let Some(decay) = self.decay {""",
     """            &mut self.momentum[layer][filter][bias as usize].data,
            &mut self.velocity[layer][filter][0].data,
        ) {
            (
                tensor::Data::Single(weights),
                tensor::Data::Single(gradients),
                tensor::Data::Single(momentum),
                tensor::Data::Single(velocity),
            ) => (0..weights.len()).for_each(|i| {
                if let Some(decay) = self.decay {""", 1),
    ("c03-net-convolution-filters-share-slot", "C03", "src/network.rs",
     """                Layer::Convolution(layer) => {
                    for (f, (filter, gradient)) in layer
                        .kernels
                        .iter_mut()
                        .zip(weight_gradients[i].quadruple_to_vec_triple().iter_mut())
                        .enumerate()
                    {
                        self.optimizer.update(i, f, false, stepnr, filter, gradient);""",
     """                Layer::Convolution(layer) => {
                    for (_f, (filter, gradient)) in layer
                        .kernels
                        .iter_mut()
                        .zip(weight_gradients[i].quadruple_to_vec_triple().iter_mut())
                        .enumerate()
                    {
                        self.optimizer.update(i, 0, false, stepnr, filter, gradient);""", 1),
    ("c03-net-feedback-copies-share-optimizer-slot", "C03", "src/feedback.rs",
     """                network::Layer::Dense(layer) => {
                    self.optimizer.update(
                        i,
                        0,
                        false,
                        stepnr,
                        &mut layer.weights,
                        &mut weight_gradients[i],
                    );""",
     """                network::Layer::Dense(layer) => {
                    self.optimizer.update(
                        i % self.coupled.len(),
                        0,
                        false,
                        stepnr,
                        &mut layer.weights,
                        &mut weight_gradients[i],
                    );""", 1),
    # ---- property-preserving refactors: must NOT be reported ----------------------------
    ("keep-chunk-size-32 (C12)", "C12", "src/network.rs",
     "const _CHUNKS: usize = 64;", "const _CHUNKS: usize = 32;", 0),
    ("keep-chunk-size-32 (C05)", "C05", "src/network.rs",
     "const _CHUNKS: usize = 64;", "const _CHUNKS: usize = 32;", 0),
    ("keep-dropout-other-fixed-seed (C09)", "C09", "src/tensor.rs",
     "let mut generator = random::Generator::create(12345);", "let mut generator = random::Generator::create(54321);", 0),
    ("keep-dropout-other-fixed-seed (C05)", "C05", "src/tensor.rs",
     "let mut generator = random::Generator::create(12345);", "let mut generator = random::Generator::create(54321);", 0),
    ("keep-batches-chunked-sequentially (C04)", "C04", "src/network.rs",
     """            .par_chunks(batch)
            .zip(targets.par_chunks(batch))
            .collect();""",
     """            .chunks(batch)
            .zip(targets.chunks(batch))
            .collect();""", 0),
    ("keep-adam-square-by-multiplication (C03)", "C03", "src/optimizer.rs",
     """                velocity[i] =
                    velocity[i] * self.beta2 + gradients[i].powf(2.0) * (1.0 - self.beta2);
                let m = momentum[i] / (1.0 - self.beta1.powi(stepnr));
                let v = velocity[i] / (1.0 - self.beta2.powi(stepnr));
                weights[i] -= self.learning_rate * m / (v.sqrt() + self.epsilon);
            }),
            (
                tensor::Data::Double(weights),
                tensor::Data::Double(gradients),
                tensor::Data::Double(momentum),
                tensor::Data::Double(velocity),
            ) => (0..weights.len()).for_each(|i| {
                for j in 0..weights[i].len() {
                    if let Some(decay) = self.decay {""",
     """                velocity[i] =
                    velocity[i] * self.beta2 + gradients[i] * gradients[i] * (1.0 - self.beta2);
                let m = momentum[i] / (1.0 - self.beta1.powi(stepnr));
                let v = velocity[i] / (1.0 - self.beta2.powi(stepnr));
                weights[i] -= self.learning_rate * m / (v.sqrt() + self.epsilon);
            }),
            (
                tensor::Data::Double(weights),
                tensor::Data::Double(gradients),
                tensor::Data::Double(momentum),
                tensor::Data::Double(velocity),
            ) => (0..weights.len()).for_each(|i| {
                for j in 0..weights[i].len() {
                    if let Some(decay) = self.decay {""", 0),
    ("keep-early-stop-window-as-slice (C13)", "C13", "src/network.rs",
     """                    let history: Vec<&f32> =
                        val_loss.iter().rev().take(threshold as usize).collect();""",
     """                    let history: Vec<&f32> =
                        val_loss[val_loss.len() - threshold as usize..].iter().rev().collect();""", 0),
    ("keep-recouple-in-reverse-copy-order (C10)", "C10", "src/feedback.rs",
     "            for i in couple.iter() {\n                match &mut self.layers[*i] {",
     "            for i in couple.iter().rev() {\n                match &mut self.layers[*i] {", 0),
]

EXTRA_PRE = {
    # helper edits that must accompany a mutant (same file), applied before the main edit
    "c05-completion-order-accumulation": [
        ("src/network.rs",
         """                        (wg, bg, loss)
                    })
                    .collect();
""",
         """                        (wg, bg, loss)
                        })((input, target));
                        __sink.lock().unwrap().push(__r);
                    });
                let results: Vec<_> = __sink.into_inner().unwrap();
"""),
    ],
    "c04-global-step-counter": [
        ("src/network.rs",
         "        for epoch in 1..epochs + 1 {\n            let mut loss_epoch = 0.0;",
         "        let mut __step: i32 = 0;\n        for epoch in 1..epochs + 1 {\n            let mut loss_epoch = 0.0;"),
    ],
}


def sh(cmd, env=None, timeout=1800):
    return subprocess.run(cmd, shell=True, env=env, stdout=subprocess.PIPE, stderr=subprocess.STDOUT, text=True, timeout=timeout)


def fresh_copy():
    shutil.rmtree(REPO, ignore_errors=True)
    os.makedirs(REPO)
    shutil.copytree("/repo/src", REPO + "/src")


def apply(path, old, new):
    p = os.path.join(REPO, path)
    s = open(p).read()
    if s.count(old) != 1:
        raise SystemExit(f"selftest error: pattern for {path} occurs {s.count(old)} times (mutant list out of date)")
    open(p, "w").write(s.replace(old, new))


def reverted_fixes(env, filters):
    """Every repaired defect must be reported again when its fix is taken out."""
    results = []
    fdir = os.path.join(ROOT, "findings")
    for slug in sorted(os.listdir(fdir)):
        fix = os.path.join(fdir, slug, "fix.diff")
        if not os.path.exists(fix):
            continue
        prop = slug.split("-")[0]
        name = "revert-fix-" + slug
        if filters and not any(f in name or f == prop for f in filters):
            continue
        fresh_copy()
        t0 = time.time()
        r = subprocess.run(f"cd {REPO} && patch -R -p1 --no-backup-if-mismatch < {fix}", shell=True, stdout=subprocess.PIPE, stderr=subprocess.STDOUT, text=True)
        if r.returncode != 0:
            print(f"selftest error: cannot revert {fix}:\n{r.stdout[-300:]}")
            results.append((name, prop, 1, 2, False, 0.0))
            continue
        r = sh(f"{ROOT}/check {prop} quick", env=env)
        ok = r.returncode == 1
        line = next((l for l in r.stdout.splitlines() if l.startswith("VIOLATION")), "")
        results.append((name, prop, 1, r.returncode, ok, time.time() - t0))
        print(f"{'ok  ' if ok else 'MISS'} {name:55s} {prop} expected=1 got={r.returncode} {time.time()-t0:5.1f}s {line[:140]}", flush=True)
    return results


def main():
    filters = sys.argv[1:]
    env = dict(os.environ, NEURONS_REPO=REPO, NEURONS_BUILD=SCRATCH + "/build", VERIF_SKIP_E2="1")
    env.pop("VERIF_ROOT", None)
    results = []
    os.makedirs(SCRATCH, exist_ok=True)
    try:
        for name, prop, path, old, new, expect in MUTANTS:
            if filters and not any(f in name or f == prop for f in filters):
                continue
            fresh_copy()
            for (p2, o2, n2) in EXTRA_PRE.get(name, []):
                apply(p2, o2, n2)
            apply(path, old, new)
            t0 = time.time()
            r = sh(f"{ROOT}/check {prop} quick", env=env)
            ok = r.returncode == expect
            line = next((l for l in r.stdout.splitlines() if l.startswith("VIOLATION")), "")
            results.append((name, prop, expect, r.returncode, ok, time.time() - t0))
            print(f"{'ok  ' if ok else 'MISS'} {name:55s} {prop} expected={expect} got={r.returncode} {time.time()-t0:5.1f}s {line[:140]}", flush=True)
            if r.returncode == 2:
                print(r.stdout[-1500:])
        results += reverted_fixes(env, filters)
    finally:
        shutil.rmtree(SCRATCH, ignore_errors=True)
    bad = [r for r in results if not r[4]]
    print(f"{len(results) - len(bad)}/{len(results)} as expected")
    return 1 if bad else 0


if __name__ == "__main__":
    sys.exit(main())
