// Shared by the E1 harness (simulated rayon-core) and the E2 crate (real rayon-core):
// programs whose result exposes the split tree rayon builds. On a one-worker pool the real
// scheduler never steals, so its behaviour is deterministic and must equal the simulator's
// sequential schedule of width 1 — both when called from outside the pool (top-level join
// injected) and from inside it (`install`).

use rayon::prelude::*;

/// Shape of the reduction tree as a parenthesised string of leaf sizes.
pub fn reduce_tree(n: usize) -> String {
    (0..n)
        .into_par_iter()
        .map(|_| "1".to_string())
        .reduce_with(|a, b| format!("({} {})", a, b))
        .unwrap_or_default()
}

/// Leaf sizes of a fold (how many consecutive items each sequential leaf received).
pub fn fold_leaves(n: usize) -> Vec<usize> {
    (0..n).into_par_iter().fold(|| 0usize, |acc, _| acc + 1).collect()
}

/// Chunked map as the library uses it: order of the collected output.
pub fn chunked_collect(n: usize, chunk: usize) -> Vec<usize> {
    let v: Vec<usize> = (0..n).collect();
    v.par_chunks(chunk).flat_map(|c| c.iter().map(|x| x * 2).collect::<Vec<_>>()).collect()
}

/// Whether each leaf saw `migrated()` through the splitter: thread index per item.
pub fn worker_of_items(n: usize) -> Vec<Option<usize>> {
    (0..n).into_par_iter().map(|_| rayon::current_thread_index()).collect()
}

pub fn fidelity_log() -> String {
    let mut out = String::new();
    for n in [1usize, 2, 3, 4, 5, 7, 8, 9, 16, 17, 31, 33, 64, 100] {
        out.push_str(&format!("reduce_tree({}) = {}\n", n, reduce_tree(n)));
        out.push_str(&format!("fold_leaves({}) = {:?}\n", n, fold_leaves(n)));
    }
    for (n, c) in [(10usize, 3usize), (65, 64), (130, 64), (7, 1)] {
        let v = chunked_collect(n, c);
        out.push_str(&format!("chunked_collect({}, {}) ordered = {}\n", n, c, v.windows(2).all(|w| w[0] < w[1])));
    }
    out.push_str(&format!("worker_of_items(5) = {:?}\n", worker_of_items(5)));
    out.push_str(&format!("current_num_threads = {}\n", rayon::current_num_threads()));
    out
}
