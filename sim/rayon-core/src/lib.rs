//! Deterministic simulation of the scheduling surface of `rayon-core` 1.12.1.
//!
//! The *real* `rayon` 1.10.0 parallel-iterator layer is compiled against this crate (via
//! `[patch.crates-io]`).  Everything schedule-visible that rayon does bottoms out in the few
//! functions below; each of them asks the thread-local simulator (`sim`) what to do, and the
//! simulator either draws the answer from a seeded PRNG (recording it) or reads it back
//! from a decision trace (replay).
//!
//! Backend: recursive, one OS thread per simulated run.  For `join_context(a, b)` the
//! simulator picks one of
//!   * inline       – `a` then `b`, both on the current virtual worker, `b` not migrated;
//!   * steal-after  – `a`, then `b` with `migrated() == true` on another virtual worker;
//!   * steal-before – `b` (migrated, other worker) runs to completion first, then `a`.
//! After `a` of a steal-after join the worker *waits* for the stolen `b`; like the real pool's
//! worker it may then "help": pop its own most recent pending job (the `b` of an enclosing
//! inline join - e.g. another task of an outer parallel loop) or steal the oldest pending job
//! of another worker, and run it nested inside the wait with `migrated == true`.
//! Every such behaviour is one the real pool can exhibit.  What this backend cannot
//! produce is overlap of leaf jobs from sibling subtrees or preemption inside a leaf;
//! engine E2 (the real rayon-core under Miri) covers that.

#![allow(clippy::new_without_default)]

use std::cell::RefCell;
use std::collections::VecDeque;
use std::error::Error;
use std::fmt;
use std::marker::PhantomData;
use std::sync::Mutex;

pub mod sim;

use sim::{with, Kind};

// ---------------------------------------------------------------------------------------
// FnContext / join
// ---------------------------------------------------------------------------------------

/// Provides the calling context to a closure called by `join_context`.
#[derive(Debug)]
pub struct FnContext {
    migrated: bool,
    _marker: PhantomData<*mut ()>,
}

impl FnContext {
    #[inline]
    fn new(migrated: bool) -> Self {
        FnContext { migrated, _marker: PhantomData }
    }
    /// `true` if the closure runs on a different (virtual) worker than the one it was
    /// provided from.
    #[inline]
    pub fn migrated(&self) -> bool {
        self.migrated
    }
}

/// Restores the current virtual worker / depth when a job finishes or unwinds.
struct Frame {
    saved_worker: Option<usize>,
    saved_depth: usize,
}

impl Frame {
    fn enter(worker: Option<usize>) -> Frame {
        with(|s| {
            let f = Frame { saved_worker: s.worker, saved_depth: s.depth };
            s.worker = worker;
            f
        })
    }
}

impl Drop for Frame {
    fn drop(&mut self) {
        let (w, d) = (self.saved_worker, self.saved_depth);
        with(|s| {
            s.worker = w;
            s.depth = d;
        });
    }
}

pub fn join<A, B, RA, RB>(oper_a: A, oper_b: B) -> (RA, RB)
where
    A: FnOnce() -> RA + Send,
    B: FnOnce() -> RB + Send,
    RA: Send,
    RB: Send,
{
    join_context(|_| oper_a(), |_| oper_b())
}

// A job that sits on its owner's deque while the owner runs the other arm of the join:
// exactly the jobs a *waiting* worker of the real pool may pick up ("help") - its own most
// recent one (`take_local_job`) or the oldest one of another worker (a steal) - and run
// nested inside its wait, with `migrated == true` (`StackJob::execute`).
struct Pending {
    id: u64,
    owner: usize,
    run: *mut (dyn FnMut(usize) + 'static),
}

thread_local! {
    static PENDING: RefCell<Vec<Pending>> = RefCell::new(Vec::new());
    static NEXT_PENDING: std::cell::Cell<u64> = std::cell::Cell::new(0);
}

pub(crate) fn clear_pending() {
    PENDING.with(|p| p.borrow_mut().clear());
    HELP_NESTING.with(|n| n.set(0));
}

/// Removes the entry when the owner's arm `a` returns or unwinds.
struct PendingGuard(u64);

impl Drop for PendingGuard {
    fn drop(&mut self) {
        let id = self.0;
        PENDING.with(|p| p.borrow_mut().retain(|e| e.id != id));
    }
}

thread_local! {
    static HELP_NESTING: std::cell::Cell<usize> = std::cell::Cell::new(0);
}

/// Helping nests (a helped job waits and helps in turn); the real pool's nesting is bounded
/// by its stack as well. Beyond this depth a waiting worker just waits.
const MAX_HELP_NESTING: usize = 48;

/// The current worker waits for a stolen job: let it help, as often as the schedule says.
fn help_while_waiting(here: usize) {
    if HELP_NESTING.with(|n| n.get()) >= MAX_HELP_NESTING {
        return;
    }
    struct Nest;
    impl Drop for Nest {
        fn drop(&mut self) {
            HELP_NESTING.with(|n| n.set(n.get().saturating_sub(1)));
        }
    }
    HELP_NESTING.with(|n| n.set(n.get() + 1));
    let _nest = Nest;
    loop {
        // candidates: own most recent pending job, oldest pending job of any other worker
        let (local, foreign) = PENDING.with(|p| {
            let p = p.borrow();
            let local = p.iter().rev().find(|e| e.owner == here).map(|e| e.id);
            let foreign = p.iter().find(|e| e.owner != here).map(|e| e.id);
            (local, foreign)
        });
        let mut options: Vec<u64> = Vec::new();
        options.extend(local);
        options.extend(foreign);
        if options.is_empty() {
            return;
        }
        let c = with(|s| s.choose(Kind::Help, options.len() + 1)) as usize;
        if c == 0 {
            return;
        }
        let id = options[c - 1];
        // take it off the deque, then run it on this worker
        let job = PENDING.with(|p| {
            let mut p = p.borrow_mut();
            p.iter().position(|e| e.id == id).map(|i| p.remove(i))
        });
        if let Some(job) = job {
            with(|s| {
                if job.owner == here {
                    s.stats.helped_local += 1;
                } else {
                    s.stats.helped_foreign += 1;
                }
            });
            // SAFETY: the entry was registered by a `join_context` frame that is still
            // executing its arm `a` (we are inside it); it unregisters the entry before it
            // touches the closure again, and the closure is run at most once.
            unsafe { (*job.run)(here) };
        }
    }
}

pub fn join_context<A, B, RA, RB>(oper_a: A, oper_b: B) -> (RA, RB)
where
    A: FnOnce(FnContext) -> RA + Send,
    B: FnOnce(FnContext) -> RB + Send,
    RA: Send,
    RB: Send,
{
    run_deferred_spawns();

    // `injected`: the caller is outside the pool, so the whole join is shipped to a worker
    // (real rayon-core: `in_worker_cold`, both arms then see `injected == true`).
    let (injected, here) = with(|s| {
        s.stats.joins += 1;
        match s.worker {
            Some(w) => (false, w),
            None => {
                let w = s.choose(Kind::TopWorker, s.width) as usize;
                s.stats.injected_top_level += 1;
                (true, w)
            }
        }
    });
    let _top = Frame::enter(Some(here));
    let depth = with(|s| {
        s.depth += 1;
        if s.depth > s.stats.max_depth {
            s.stats.max_depth = s.depth;
        }
        s.shape_event(1);
        s.depth
    });

    // 0 inline, 1 steal-after, 2 steal-before.  A pool of width 1 never steals.
    let (decision, thief) = with(|s| {
        if s.width <= 1 {
            return (0, here);
        }
        let d = s.choose(Kind::Join, 3);
        if d == 0 {
            s.stats.inline += 1;
            (0, here)
        } else {
            let k = s.choose(Kind::Thief, s.width - 1) as usize;
            let t = if k >= here { k + 1 } else { k };
            if d == 1 {
                s.stats.steal_after += 1;
            } else {
                s.stats.steal_before += 1;
            }
            if t != here {
                s.stats.worker_reindex += 1;
            }
            (d, t)
        }
    });

    let run_a = |oper_a: A| {
        let _f = Frame::enter(Some(here));
        with(|s| s.depth = depth);
        oper_a(FnContext::new(injected))
    };
    let run_b = |oper_b: B, worker: usize, migrated: bool| {
        let _f = Frame::enter(Some(worker));
        with(|s| s.depth = depth);
        oper_b(FnContext::new(migrated))
    };
    let result = match decision {
        0 => {
            // `b` stays on this worker's deque while `a` runs: a worker that waits further
            // down (this one, or another) may take it and run it nested. Only in a pool of
            // more than one worker - a lone worker never waits.
            let mut slot_b = Some(oper_b);
            let mut helped: Option<std::thread::Result<RB>> = None;
            let ra = if with(|s| s.width) > 1 {
                let mut runner = |worker: usize| {
                    if let Some(b) = slot_b.take() {
                        let r = std::panic::catch_unwind(std::panic::AssertUnwindSafe(|| {
                            let _f = Frame::enter(Some(worker));
                            with(|s| s.depth = depth);
                            b(FnContext::new(true))
                        }));
                        helped = Some(r);
                    }
                };
                let id = NEXT_PENDING.with(|n| {
                    n.set(n.get() + 1);
                    n.get()
                });
                {
                    let short: *mut (dyn FnMut(usize) + '_) = &mut runner;
                    // SAFETY: lifetime erasure only; the entry is removed (guard) before
                    // `runner` and what it borrows go out of scope.
                    let run: *mut (dyn FnMut(usize) + 'static) = unsafe { std::mem::transmute(short) };
                    PENDING.with(|p| p.borrow_mut().push(Pending { id, owner: here, run }));
                }
                let guard = PendingGuard(id);
                let ra = run_a(oper_a);
                drop(guard);
                ra
            } else {
                run_a(oper_a)
            };
            let rb = match helped {
                Some(Ok(rb)) => rb,
                // the real pool re-raises a job's panic where the job is joined
                Some(Err(payload)) => std::panic::resume_unwind(payload),
                None => run_b(slot_b.take().expect("job b neither helped nor pending"), here, injected),
            };
            (ra, rb)
        }
        1 => {
            let ra = run_a(oper_a);
            // `b` was stolen and is not finished: this worker waits for it, and helps
            help_while_waiting(here);
            let rb = run_b(oper_b, thief, true);
            (ra, rb)
        }
        _ => {
            let rb = run_b(oper_b, thief, true);
            let ra = run_a(oper_a);
            (ra, rb)
        }
    };
    with(|s| s.shape_event(2));
    result
}

// ---------------------------------------------------------------------------------------
// thread / pool introspection
// ---------------------------------------------------------------------------------------

pub fn max_num_threads() -> usize {
    (1 << (usize::BITS as usize / 2 - 3)) - 1 // any large constant; informational only
}

pub fn current_num_threads() -> usize {
    with(|s| {
        s.stats.num_threads_reads += 1;
        s.width
    })
}

pub fn current_thread_index() -> Option<usize> {
    with(|s| {
        s.stats.thread_index_reads += 1;
        s.worker
    })
}

pub fn current_thread_has_pending_tasks() -> Option<bool> {
    with(|s| s.worker.map(|_| !s.deferred.is_empty()))
}

/// Result of `yield_now()` or `yield_local()`.
#[derive(Clone, Copy, Debug, PartialEq, Eq)]
pub enum Yield {
    Executed,
    Idle,
}

pub fn yield_now() -> Option<Yield> {
    let in_pool = with(|s| s.worker.is_some());
    if !in_pool {
        return None;
    }
    if run_one_deferred_spawn() {
        Some(Yield::Executed)
    } else {
        Some(Yield::Idle)
    }
}

pub fn yield_local() -> Option<Yield> {
    yield_now()
}

// ---------------------------------------------------------------------------------------
// spawn
// ---------------------------------------------------------------------------------------

fn run_one_deferred_spawn() -> bool {
    let job = with(|s| {
        if s.deferred.is_empty() {
            None
        } else {
            let i = s.choose(Kind::Order, s.deferred.len()) as usize;
            if i != 0 {
                s.stats.spawn_reorder += 1;
            }
            s.deferred.remove(i)
        }
    });
    match job {
        Some(job) => {
            let w = with(|s| s.choose(Kind::TopWorker, s.width) as usize);
            let _f = Frame::enter(Some(w));
            job();
            true
        }
        None => false,
    }
}

pub(crate) fn run_deferred_spawns() {
    while run_one_deferred_spawn() {}
}

pub fn spawn<F>(func: F)
where
    F: FnOnce() + Send + 'static,
{
    let now = with(|s| {
        s.stats.spawns += 1;
        s.choose(Kind::Spawn, 2) == 0
    });
    if now {
        let w = with(|s| s.choose(Kind::TopWorker, s.width) as usize);
        let _f = Frame::enter(Some(w));
        func();
    } else {
        with(|s| s.deferred.push_back(Box::new(func)));
    }
}

pub fn spawn_fifo<F>(func: F)
where
    F: FnOnce() + Send + 'static,
{
    spawn(func)
}

// ---------------------------------------------------------------------------------------
// scope
// ---------------------------------------------------------------------------------------

type ScopeJob<'scope, S> = Box<dyn FnOnce(&S) + Send + 'scope>;

pub struct Scope<'scope> {
    jobs: Mutex<VecDeque<ScopeJob<'scope, Scope<'scope>>>>,
    marker: PhantomData<Box<dyn FnOnce(&Scope<'scope>) + Send + Sync + 'scope>>,
}

pub struct ScopeFifo<'scope> {
    jobs: Mutex<VecDeque<ScopeJob<'scope, ScopeFifo<'scope>>>>,
    marker: PhantomData<Box<dyn FnOnce(&ScopeFifo<'scope>) + Send + Sync + 'scope>>,
}

macro_rules! scope_impl {
    ($ty:ident, $spawn:ident) => {
        impl<'scope> $ty<'scope> {
            fn new() -> Self {
                $ty { jobs: Mutex::new(VecDeque::new()), marker: PhantomData }
            }

            pub fn $spawn<BODY>(&self, body: BODY)
            where
                BODY: FnOnce(&$ty<'scope>) + Send + 'scope,
            {
                let now = with(|s| {
                    s.stats.spawns += 1;
                    s.choose(Kind::Spawn, 2) == 0
                });
                if now {
                    let w = with(|s| s.choose(Kind::TopWorker, s.width) as usize);
                    let _f = Frame::enter(Some(w));
                    body(self);
                } else {
                    self.jobs.lock().unwrap().push_back(Box::new(body));
                }
            }

            pub fn spawn_broadcast<BODY>(&self, body: BODY)
            where
                BODY: Fn(&$ty<'scope>, BroadcastContext<'_>) + Send + Sync + 'scope,
            {
                let width = with(|s| s.width);
                let order = broadcast_order(width);
                for w in order {
                    let _f = Frame::enter(Some(w));
                    body(self, BroadcastContext { index: w, width, marker: PhantomData });
                }
            }

            fn complete(&self) {
                loop {
                    let job = {
                        let mut q = self.jobs.lock().unwrap();
                        if q.is_empty() {
                            None
                        } else {
                            let n = q.len();
                            let i = with(|s| {
                                let i = s.choose(Kind::Order, n) as usize;
                                if i != 0 {
                                    s.stats.spawn_reorder += 1;
                                }
                                i
                            });
                            q.remove(i)
                        }
                    };
                    match job {
                        Some(job) => {
                            let w = with(|s| s.choose(Kind::TopWorker, s.width) as usize);
                            let _f = Frame::enter(Some(w));
                            job(self);
                        }
                        None => break,
                    }
                }
            }
        }

        impl<'scope> fmt::Debug for $ty<'scope> {
            fn fmt(&self, f: &mut fmt::Formatter<'_>) -> fmt::Result {
                f.debug_struct(stringify!($ty)).finish()
            }
        }
    };
}

scope_impl!(Scope, spawn);
scope_impl!(ScopeFifo, spawn_fifo);

fn enter_pool() -> Frame {
    let w = with(|s| match s.worker {
        Some(w) => w,
        None => {
            s.stats.injected_top_level += 1;
            s.choose(Kind::TopWorker, s.width) as usize
        }
    });
    Frame::enter(Some(w))
}

pub fn scope<'scope, OP, R>(op: OP) -> R
where
    OP: FnOnce(&Scope<'scope>) -> R + Send,
    R: Send,
{
    let _f = enter_pool();
    let scope = Scope::new();
    let r = op(&scope);
    scope.complete();
    r
}

pub fn scope_fifo<'scope, OP, R>(op: OP) -> R
where
    OP: FnOnce(&ScopeFifo<'scope>) -> R + Send,
    R: Send,
{
    let _f = enter_pool();
    let scope = ScopeFifo::new();
    let r = op(&scope);
    scope.complete();
    r
}

pub fn in_place_scope<'scope, OP, R>(op: OP) -> R
where
    OP: FnOnce(&Scope<'scope>) -> R,
{
    // The body runs on the calling thread (inside or outside the pool), spawned jobs in
    // the pool.
    let scope = Scope::new();
    let r = op(&scope);
    scope.complete();
    r
}

pub fn in_place_scope_fifo<'scope, OP, R>(op: OP) -> R
where
    OP: FnOnce(&ScopeFifo<'scope>) -> R,
{
    let scope = ScopeFifo::new();
    let r = op(&scope);
    scope.complete();
    r
}

// ---------------------------------------------------------------------------------------
// broadcast
// ---------------------------------------------------------------------------------------

pub struct BroadcastContext<'a> {
    index: usize,
    width: usize,
    marker: PhantomData<&'a mut dyn FnMut()>,
}

impl<'a> BroadcastContext<'a> {
    pub fn index(&self) -> usize {
        self.index
    }
    pub fn num_threads(&self) -> usize {
        self.width
    }
}

impl<'a> fmt::Debug for BroadcastContext<'a> {
    fn fmt(&self, f: &mut fmt::Formatter<'_>) -> fmt::Result {
        f.debug_struct("BroadcastContext")
            .field("index", &self.index)
            .field("num_threads", &self.width)
            .finish()
    }
}

fn broadcast_order(width: usize) -> Vec<usize> {
    let mut remaining: Vec<usize> = (0..width).collect();
    let mut order = Vec::with_capacity(width);
    while !remaining.is_empty() {
        let n = remaining.len();
        let i = with(|s| s.choose(Kind::Order, n) as usize);
        order.push(remaining.remove(i));
    }
    order
}

pub fn broadcast<OP, R>(op: OP) -> Vec<R>
where
    OP: Fn(BroadcastContext<'_>) -> R + Sync,
    R: Send,
{
    let width = with(|s| s.width);
    let order = broadcast_order(width);
    let mut out: Vec<Option<R>> = (0..width).map(|_| None).collect();
    for w in order {
        let _f = Frame::enter(Some(w));
        out[w] = Some(op(BroadcastContext { index: w, width, marker: PhantomData }));
    }
    out.into_iter().map(|r| r.unwrap()).collect()
}

pub fn spawn_broadcast<OP>(op: OP)
where
    OP: Fn(BroadcastContext<'_>) + Send + Sync + 'static,
{
    let width = with(|s| s.width);
    let order = broadcast_order(width);
    for w in order {
        let _f = Frame::enter(Some(w));
        op(BroadcastContext { index: w, width, marker: PhantomData });
    }
}

// ---------------------------------------------------------------------------------------
// ThreadPool / builder (width switch for the dynamic extent of `install`)
// ---------------------------------------------------------------------------------------

#[derive(Debug)]
pub struct ThreadPoolBuildError {
    msg: &'static str,
}

impl Error for ThreadPoolBuildError {}

impl fmt::Display for ThreadPoolBuildError {
    fn fmt(&self, f: &mut fmt::Formatter<'_>) -> fmt::Result {
        f.write_str(self.msg)
    }
}

/// Thread builder handed to a custom spawn handler (never constructed by the simulator).
pub struct ThreadBuilder {
    _private: (),
}

impl ThreadBuilder {
    pub fn index(&self) -> usize {
        0
    }
    pub fn name(&self) -> Option<&str> {
        None
    }
    pub fn stack_size(&self) -> Option<usize> {
        None
    }
    pub fn run(self) {}
}

impl fmt::Debug for ThreadBuilder {
    fn fmt(&self, f: &mut fmt::Formatter<'_>) -> fmt::Result {
        f.debug_struct("ThreadBuilder").finish()
    }
}

#[derive(Default)]
pub struct ThreadPoolBuilder {
    num_threads: usize,
}

impl fmt::Debug for ThreadPoolBuilder {
    fn fmt(&self, f: &mut fmt::Formatter<'_>) -> fmt::Result {
        f.debug_struct("ThreadPoolBuilder").field("num_threads", &self.num_threads).finish()
    }
}

impl ThreadPoolBuilder {
    pub fn new() -> Self {
        Self::default()
    }
    pub fn build(self) -> Result<ThreadPool, ThreadPoolBuildError> {
        // 0 = "default": the width the simulator currently uses for the global pool.
        Ok(ThreadPool { width: self.num_threads })
    }
    pub fn build_global(self) -> Result<(), ThreadPoolBuildError> {
        let done = with(|s| {
            if s.global_built {
                true
            } else {
                s.global_built = true;
                false
            }
        });
        if done {
            return Err(ThreadPoolBuildError {
                msg: "The global thread pool has already been initialized.",
            });
        }
        // The simulator, not the program, owns the width of the global pool: a request
        // for a specific width is recorded but the drawn width stays in force, because
        // the property quantifies over all widths.
        Ok(())
    }
    pub fn build_scoped<W, F, R>(self, wrapper: W, with_pool: F) -> Result<R, ThreadPoolBuildError>
    where
        W: Fn(ThreadBuilder) + Sync,
        F: FnOnce(&ThreadPool) -> R,
    {
        let _ = wrapper;
        let pool = self.build()?;
        Ok(with_pool(&pool))
    }
    pub fn num_threads(mut self, num_threads: usize) -> Self {
        self.num_threads = num_threads;
        self
    }
    pub fn use_current_thread(self) -> Self {
        self
    }
    pub fn thread_name<F>(self, _closure: F) -> Self
    where
        F: FnMut(usize) -> String + 'static,
    {
        self
    }
    pub fn panic_handler<H>(self, _h: H) -> Self
    where
        H: Fn(Box<dyn std::any::Any + Send>) + Send + Sync + 'static,
    {
        self
    }
    pub fn stack_size(self, _stack_size: usize) -> Self {
        self
    }
    #[deprecated(note = "use `scope_fifo` and `spawn_fifo` for similar effect")]
    pub fn breadth_first(self) -> Self {
        self
    }
    pub fn start_handler<H>(self, _h: H) -> Self
    where
        H: Fn(usize) + Send + Sync + 'static,
    {
        self
    }
    pub fn exit_handler<H>(self, _h: H) -> Self
    where
        H: Fn(usize) + Send + Sync + 'static,
    {
        self
    }
}

pub struct ThreadPool {
    width: usize,
}

impl fmt::Debug for ThreadPool {
    fn fmt(&self, f: &mut fmt::Formatter<'_>) -> fmt::Result {
        f.debug_struct("ThreadPool").field("num_threads", &self.current_num_threads()).finish()
    }
}

struct WidthGuard {
    saved_width: usize,
    saved_worker: Option<usize>,
}

impl Drop for WidthGuard {
    fn drop(&mut self) {
        let (w, k) = (self.saved_width, self.saved_worker);
        with(|s| {
            s.width = w;
            s.worker = k;
        });
    }
}

impl ThreadPool {
    fn effective_width(&self) -> usize {
        if self.width == 0 {
            with(|s| s.width)
        } else {
            self.width
        }
    }

    pub fn install<OP, R>(&self, op: OP) -> R
    where
        OP: FnOnce() -> R + Send,
        R: Send,
    {
        let width = self.effective_width();
        let _g = with(|s| {
            let g = WidthGuard { saved_width: s.width, saved_worker: s.worker };
            s.stats.installs += 1;
            s.width = width;
            // `install` runs `op` on one of *this* pool's workers.
            s.worker = Some(s.choose(Kind::TopWorker, width) as usize);
            g
        });
        op()
    }

    pub fn broadcast<OP, R>(&self, op: OP) -> Vec<R>
    where
        OP: Fn(BroadcastContext<'_>) -> R + Sync,
        R: Send,
    {
        let width = self.effective_width();
        let _g = with(|s| {
            let g = WidthGuard { saved_width: s.width, saved_worker: s.worker };
            s.width = width;
            g
        });
        broadcast(op)
    }

    pub fn current_num_threads(&self) -> usize {
        self.effective_width()
    }

    pub fn current_thread_index(&self) -> Option<usize> {
        with(|s| s.worker)
    }

    pub fn current_thread_has_pending_tasks(&self) -> Option<bool> {
        current_thread_has_pending_tasks()
    }

    pub fn join<A, B, RA, RB>(&self, oper_a: A, oper_b: B) -> (RA, RB)
    where
        A: FnOnce() -> RA + Send,
        B: FnOnce() -> RB + Send,
        RA: Send,
        RB: Send,
    {
        self.install(|| join(oper_a, oper_b))
    }

    pub fn scope<'scope, OP, R>(&self, op: OP) -> R
    where
        OP: FnOnce(&Scope<'scope>) -> R + Send,
        R: Send,
    {
        self.install(|| scope(op))
    }

    pub fn scope_fifo<'scope, OP, R>(&self, op: OP) -> R
    where
        OP: FnOnce(&ScopeFifo<'scope>) -> R + Send,
        R: Send,
    {
        self.install(|| scope_fifo(op))
    }

    pub fn in_place_scope<'scope, OP, R>(&self, op: OP) -> R
    where
        OP: FnOnce(&Scope<'scope>) -> R,
    {
        in_place_scope(op)
    }

    pub fn in_place_scope_fifo<'scope, OP, R>(&self, op: OP) -> R
    where
        OP: FnOnce(&ScopeFifo<'scope>) -> R,
    {
        in_place_scope_fifo(op)
    }

    pub fn spawn<OP>(&self, op: OP)
    where
        OP: FnOnce() + Send + 'static,
    {
        spawn(op)
    }

    pub fn spawn_fifo<OP>(&self, op: OP)
    where
        OP: FnOnce() + Send + 'static,
    {
        spawn(op)
    }

    pub fn spawn_broadcast<OP>(&self, op: OP)
    where
        OP: Fn(BroadcastContext<'_>) + Send + Sync + 'static,
    {
        spawn_broadcast(op)
    }

    pub fn yield_now(&self) -> Option<Yield> {
        yield_now()
    }

    pub fn yield_local(&self) -> Option<Yield> {
        yield_local()
    }
}

// keep the unused import warning away when RefCell is only used in `sim`
#[allow(dead_code)]
type _Unused = RefCell<()>;
