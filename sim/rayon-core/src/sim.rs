//! Simulator control: one thread-local `State` per OS thread, so the harness can fan
//! independent simulated runs out over real threads without any shared state.
//!
//! All scheduling choices go through `State::choose(kind, n)`:
//!   * record mode: the choice is drawn from the run's PRNG according to the policy and
//!     appended to the decision trace;
//!   * replay mode: the choice is read from the supplied trace; past its end the choice is
//!     0 (= the sequential schedule); a `(kind, n)` mismatch is a *replay divergence* and
//!     is reported to the harness (never as a property violation).
//! Nothing here reads a clock, and logging never draws from the PRNG.

use std::cell::RefCell;
use std::collections::VecDeque;

#[derive(Clone, Copy, Debug, PartialEq, Eq)]
#[repr(u8)]
pub enum Kind {
    /// which virtual worker receives a job injected from outside the pool (n = width)
    TopWorker = 0,
    /// join: 0 inline, 1 steal-after, 2 steal-before (n = 3)
    Join = 1,
    /// which *other* worker steals (n = width - 1)
    Thief = 2,
    /// spawn: 0 run immediately, 1 defer (n = 2)
    Spawn = 3,
    /// which queued job runs next (n = queue length)
    Order = 4,
    /// a worker waiting for a stolen job: 0 keep waiting (the thief finishes first),
    /// 1.. run one of the pending jobs it could pop or steal, nested (n = 1 + candidates)
    Help = 5,
}

impl Kind {
    pub fn from_u8(k: u8) -> Option<Kind> {
        Some(match k {
            0 => Kind::TopWorker,
            1 => Kind::Join,
            2 => Kind::Thief,
            3 => Kind::Spawn,
            4 => Kind::Order,
            5 => Kind::Help,
            _ => return None,
        })
    }
}

#[derive(Clone, Copy, Debug, PartialEq, Eq)]
pub struct Decision {
    pub kind: u8,
    pub n: u32,
    pub choice: u32,
}

/// How join decisions are drawn in record mode.
#[derive(Clone, Copy, Debug, PartialEq)]
pub enum Policy {
    /// never steal; worker 0 everywhere (the reference schedule)
    Sequential,
    /// steal with probability `p_steal`; given a steal, it is steal-before with
    /// probability `p_before`
    Random { p_steal: f32, p_before: f32 },
    /// inline, steal-after, steal-before, inline, ... in turn
    Alternate,
}

#[derive(Clone, Debug)]
pub struct Config {
    pub width: usize,
    pub policy: Policy,
    pub seed: u64,
    /// replay mode if `Some`
    pub replay: Option<Vec<Decision>>,
    /// the program under test is called from a worker of the pool (as under
    /// `ThreadPool::install`), not from an outside thread: top-level joins are then not
    /// injected and the split trees differ
    pub inside: bool,
}

impl Config {
    pub fn sequential() -> Config {
        Config { width: 1, policy: Policy::Sequential, seed: 0, replay: None, inside: false }
    }
}

#[derive(Clone, Debug, Default, PartialEq, Eq)]
pub struct Stats {
    pub joins: u64,
    pub inline: u64,
    pub steal_after: u64,
    pub steal_before: u64,
    pub worker_reindex: u64,
    pub injected_top_level: u64,
    pub helped_local: u64,
    pub helped_foreign: u64,
    pub spawns: u64,
    pub spawn_reorder: u64,
    pub installs: u64,
    pub started_inside_pool: u64,
    pub width_changes: u64,
    pub max_depth: usize,
    pub num_threads_reads: u64,
    pub thread_index_reads: u64,
    /// scheduler ticks = number of decisions taken (logical simulated time)
    pub ticks: u64,
}

#[derive(Clone, Debug)]
pub struct Report {
    pub trace: Vec<Decision>,
    pub stats: Stats,
    /// hash of the join nesting structure (the split tree), independent of the choices
    pub shape_hash: u64,
    /// hash of the decision trace
    pub trace_hash: u64,
    pub divergence: Option<String>,
    pub width: usize,
}

pub(crate) type Deferred = Box<dyn FnOnce() + Send + 'static>;

pub struct State {
    pub(crate) active: bool,
    pub(crate) width: usize,
    pub(crate) worker: Option<usize>,
    pub(crate) depth: usize,
    pub(crate) stats: Stats,
    pub(crate) deferred: VecDeque<Deferred>,
    pub(crate) global_built: bool,
    policy: Policy,
    rng: u64,
    alt: u32,
    trace: Vec<Decision>,
    replay: Option<Vec<Decision>>,
    replay_pos: usize,
    divergence: Option<String>,
    shape_hash: u64,
}

impl State {
    fn new() -> State {
        State {
            active: false,
            width: 1,
            worker: None,
            depth: 0,
            stats: Stats::default(),
            deferred: VecDeque::new(),
            global_built: false,
            policy: Policy::Sequential,
            rng: 0,
            alt: 0,
            trace: Vec::new(),
            replay: None,
            replay_pos: 0,
            divergence: None,
            shape_hash: 0xcbf2_9ce4_8422_2325,
        }
    }

    fn next_u64(&mut self) -> u64 {
        // SplitMix64
        self.rng = self.rng.wrapping_add(0x9E37_79B9_7F4A_7C15);
        let mut z = self.rng;
        z = (z ^ (z >> 30)).wrapping_mul(0xBF58_476D_1CE4_E5B9);
        z = (z ^ (z >> 27)).wrapping_mul(0x94D0_49BB_1331_11EB);
        z ^ (z >> 31)
    }

    fn next_f32(&mut self) -> f32 {
        (self.next_u64() >> 40) as f32 / (1u64 << 24) as f32
    }

    pub(crate) fn shape_event(&mut self, ev: u64) {
        let x = ev ^ ((self.depth as u64) << 8);
        self.shape_hash = (self.shape_hash ^ x).wrapping_mul(0x0000_0100_0000_01B3);
    }

    /// The single point through which every scheduling choice passes.
    pub(crate) fn choose(&mut self, kind: Kind, n: usize) -> u32 {
        debug_assert!(n >= 1);
        let n = n.max(1) as u32;
        self.stats.ticks += 1;
        let choice = if let Some(replay) = &self.replay {
            if self.replay_pos < replay.len() {
                let d = replay[self.replay_pos];
                self.replay_pos += 1;
                if d.kind != kind as u8 || d.n != n {
                    if self.divergence.is_none() {
                        self.divergence = Some(format!(
                            "replay divergence at decision {}: trace has (kind={}, n={}), execution asks (kind={}, n={})",
                            self.replay_pos - 1, d.kind, d.n, kind as u8, n
                        ));
                    }
                    0
                } else {
                    d.choice.min(n - 1)
                }
            } else {
                0
            }
        } else if n == 1 {
            0
        } else {
            match (self.policy, kind) {
                (Policy::Sequential, _) => 0,
                (Policy::Random { p_steal, p_before }, Kind::Join) => {
                    if self.next_f32() < p_steal {
                        if self.next_f32() < p_before {
                            2
                        } else {
                            1
                        }
                    } else {
                        0
                    }
                }
                (Policy::Alternate, Kind::Join) => {
                    self.alt = (self.alt + 1) % 3;
                    self.alt
                }
                (_, _) => (self.next_u64() % n as u64) as u32,
            }
        };
        self.trace.push(Decision { kind: kind as u8, n, choice });
        choice
    }
}

thread_local! {
    static STATE: RefCell<State> = RefCell::new(State::new());
}

pub(crate) fn with<R>(f: impl FnOnce(&mut State) -> R) -> R {
    STATE.with(|s| f(&mut s.borrow_mut()))
}

/// Start a simulated run on this OS thread.
pub fn begin(cfg: Config) {
    crate::clear_pending();
    with(|s| {
        *s = State::new();
        s.active = true;
        s.width = cfg.width.max(1);
        s.policy = cfg.policy;
        s.rng = cfg.seed;
        s.replay = cfg.replay;
        if cfg.inside {
            let w = s.choose(Kind::TopWorker, s.width) as usize;
            s.worker = Some(w);
            s.stats.started_inside_pool += 1;
        }
    });
}

/// Change the width of the global pool between two API calls of the program under test.
pub fn set_width(width: usize) {
    with(|s| {
        if s.width != width.max(1) {
            s.stats.width_changes += 1;
        }
        s.width = width.max(1);
    });
}

/// Finish the run: execute still-deferred detached jobs, return trace and statistics.
pub fn end() -> Report {
    crate::run_deferred_spawns();
    crate::clear_pending();
    with(|s| {
        let mut h: u64 = 0xcbf2_9ce4_8422_2325;
        for d in &s.trace {
            for x in [d.kind as u64, d.n as u64, d.choice as u64] {
                h = (h ^ x).wrapping_mul(0x0000_0100_0000_01B3);
            }
        }
        let r = Report {
            trace: std::mem::take(&mut s.trace),
            stats: s.stats.clone(),
            shape_hash: s.shape_hash,
            trace_hash: h,
            divergence: s.divergence.take(),
            width: s.width,
        };
        *s = State::new();
        r
    })
}

/// Number of decisions taken so far in the current run (logical time).
pub fn ticks() -> u64 {
    with(|s| s.stats.ticks)
}
